"""Engine X: CLI / IO clauses (polarity, leaf-filter predicates, index domains, data flow in main, counter invariant,
sibling agreement of the parse-tree exporter)."""

from facts import canon, walk, callee_name, callee_decl, pp, pp_pat, children
from engine_e import strip

BDD = 'rsbdd::bdd::BDD'
TTE = 'rsbdd::truth_table::TruthTableEntry'
SYN = 'rsbdd::parser::SymbolicBDD'

def unwrap_pat(p):
    while p['k'] in ('Deref', 'DerefPattern'): p = p['sub']
    return p

def choice_bindings(t):
    """var -> field index (0 true-branch, 1 symbol, 2 false-branch) for every Choice(..) pattern in the body"""
    out = {}
    def rec_pat(p):
        p = unwrap_pat(p)
        if p['k'] == 'Variant' and canon(p['adt']) == BDD and p['variant'] == 'Choice':
            for s in p['subs']:
                q = unwrap_pat(s['pat'])
                if q['k'] == 'Binding': out[q['var']] = s['field']
        for key in ('subs',):
            for s in p.get(key, []) or []: rec_pat(s['pat'])
        for q in p.get('pats', []) or []: rec_pat(q)
        if p.get('sub'): rec_pat(p['sub'])
    for e in walk(t['body']):
        if e['k'] == 'Match':
            for a in e['arms']: rec_pat(a['pat'])
        if e['k'] == 'Let': rec_pat(e['pat'])
        if e['k'] == 'Block':
            for st in e['stmts']:
                if st['k'] == 'Let': rec_pat(st['pat'])          # `let BDD::Choice(l, _, r) = root.as_ref() else { return .. };`
    return out

def root_var(e):
    """variable an expression is a (deref/borrow/clone/as_ref of)"""
    e = strip(e)
    while isinstance(e, dict):
        if e['k'] in ('VarRef', 'UpvarRef'): return e['var']
        if e['k'] == 'Call' and (callee_decl(e) in ('std::clone::Clone::clone', 'std::convert::AsRef::as_ref', 'std::ops::Deref::deref', 'std::ops::DerefMut::deref_mut', 'std::borrow::ToOwned::to_owned') or callee_name(e) in ('std::slice::<impl [T]>::to_vec',)) and e['args']:
            e = strip(e['args'][0]); continue
        return None
    return None

def stmts_in_order(block):
    """flatten a Block's statements (+ tail) into a list of expressions/lets"""
    out = []
    b = block
    while b['k'] in ('Use', 'NeverToAny'): b = b['source']
    if b['k'] != 'Block': return [b]
    for s in b['stmts']: out.append(s)
    if b['expr'] is not None: out.append({'k': 'Expr', 'expr': b['expr']})
    return out


def stmts_in_order_flat(block):
    """like stmts_in_order, with `let x = { s1; ..; v };` (an inlined helper's body) read as `s1; ..; let x = v;`"""
    out = []
    for s in stmts_in_order(block):
        if s['k'] == 'Let' and s.get('init') is not None and s.get('else') is None:
            b = s['init']
            while b['k'] in ('Use', 'NeverToAny'): b = b['source']
            if b['k'] == 'Block' and b['stmts'] and b.get('expr') is not None and not any(x['k'] in ('Return', 'Break', 'Continue') for x in walk(b)):
                out.extend(stmts_in_order_flat({'k': 'Block', 'stmts': b['stmts'], 'expr': None}))
                s2 = dict(s); s2['init'] = b['expr']
                out.append(s2)
                continue
        if s['k'] == 'Expr':
            b = s['expr']
            while b['k'] in ('Use', 'NeverToAny'): b = b['source']
            if b['k'] == 'Block':          # a nested plain block (one copy of an unrolled loop body): its statements, in order
                out.extend(stmts_in_order_flat(b)); continue
        out.append(s)
    return out

def sorts_ascending_by_id(call, crate):
    """is this call a sort of a sequence of NamedSymbol ascending by `id`?  sort_by(|a, b| a.id.cmp(&b.id)) in its stable/unstable
    forms, or sort_by_key(|v| v.id) in its stable/unstable/cached forms"""
    n = (callee_name(call) or '').split('::')[-1]
    if call['k'] != 'Call' or len(call['args']) != 2: return False
    cl = [x for x in walk(call['args'][1]) if x['k'] == 'Closure']
    if not cl: return False
    ct = crate.ithir.get(canon(cl[0]['def']))
    if ct is None: return False
    pn = [unwrap_pat(p['pat']).get('var') for p in ct['params'][1:]]
    b = ct['body']
    while b['k'] in ('Use', 'NeverToAny') or (b['k'] == 'Block' and not b['stmts'] and b['expr'] is not None): b = b['source'] if b['k'] != 'Block' else b['expr']
    if n in ('sort_by', 'sort_unstable_by') and len(pn) == 2:
        b = strip(b)
        if b['k'] == 'Call' and callee_decl(b) == 'std::cmp::Ord::cmp':
            a0, a1 = strip(b['args'][0]), strip(b['args'][1])
            return a0['k'] == 'Field' and a0.get('field_name') == 'id' and a1['k'] == 'Field' and a1.get('field_name') == 'id' and \
                root_var(a0['lhs']) == pn[0] and root_var(a1['lhs']) == pn[1]
        return False
    if n in ('sort_by_key', 'sort_unstable_by_key', 'sort_by_cached_key') and len(pn) == 1:
        b = strip(b)
        return b['k'] == 'Field' and b.get('field_name') == 'id' and root_var(b['lhs']) == pn[0]
    return False

def is_stdout_write(x):
    """println!/print!, or write!/writeln! on a standard-output handle (`io::stdout()`, a `StdoutLock` passed down)"""
    if x.get('k') != 'Call': return False
    if callee_name(x) == 'std::io::_print': return True
    if callee_decl(x) == 'std::io::Write::write_fmt' and x['args']:
        a = x['args'][0]
        while True:
            ts = str((a.get('ty') or {}).get('s'))
            if 'std::io::Stdout' in ts: return True
            if a['k'] in ('Borrow', 'Deref', 'Use'): a = a.get('arg') or a.get('source'); continue
            return False
    return False

def role_index(t, role):
    """position of a printer's parameter by what it holds, not by where it stands: 'root' the diagram (`&Rc<BDD<..>>`), 'values' the partial
    assignment (`Vec<TruthTableEntry>`); a parameter added in front (an output handle passed down) does not move the roles"""
    import re as _re
    want = {'root': r'Rc<rsbdd::bdd::BDD<', 'values': r'(Vec<|\[)[\w:]*TruthTableEntry'}[role]
    for i, p in enumerate(t['params']):
        ts = str((p.get('ty') or {}).get('s'))
        if _re.search(want, ts): return i
    return {'root': 0, 'values': 1}[role]

_GAB = {}
def guards_as_branches(t):
    """the printer with its early-leaving guard statements read as the match / if-else they abbreviate (facts.returns_as_match)"""
    if t is None: return None
    if id(t) not in _GAB:
        import facts as _facts
        u = dict(t); u['body'] = _facts.unroll_array_loops(_facts.returns_as_match(t['body'])); _GAB[id(t)] = (t, u)
    return _GAB[id(t)][1]

# ------------------------------------------------------------------------------------------------ X1
def rule_X1_printers(F, R):
    binc = F.bin()
    for fn in ('rsbdd::print_truth_table_recursive', 'rsbdd::print_true_vars_recursive'):
        t = guards_as_branches(binc.ithir.get(fn))
        if t is None:
            R.violation('%s / X1 / anchor' % fn, 'UNDECIDABLE', 'printer %s not found' % fn); continue
        cb = choice_bindings(t)
        n = 0
        for m in walk(t['body']):
            if m['k'] != 'Match': continue
            for arm in m['arms']:
                p = unwrap_pat(arm['pat'])
                if not (p['k'] == 'Variant' and canon(p['adt']) == BDD and p['variant'] == 'Choice'): continue
                assigned = {}      # vec var -> last assigned TTE variant
                alias = {}
                for s in stmts_in_order_flat(arm['body']):
                    if s['k'] == 'Let':
                        q = unwrap_pat(s['pat'])
                        if q['k'] == 'Binding' and s['init'] is not None:
                            rv = root_var(s['init'])
                            if rv: alias[q['var']] = rv
                            # `let r_vals = bound;` hands the vector on with what was recorded in it so far
                            i0_ = strip(s['init'])
                            if rv and i0_['k'] in ('VarRef', 'UpvarRef') and rv in assigned: assigned[q['var']] = assigned[rv]
                            elif q['var'] in assigned: del assigned[q['var']]
                        continue
                    e = s['expr']
                    if e['k'] == 'Assign':
                        l = strip(e['lhs'])
                        tgt = None
                        if l['k'] == 'Index': tgt = root_var(l['lhs'])
                        elif l['k'] == 'Call' and (callee_decl(l) or '').startswith('std::ops::IndexMut'): tgt = root_var(l['args'][0])
                        rhs = strip(e['rhs'])
                        if tgt and rhs['k'] == 'Adt' and canon(rhs['adt']) == TTE: assigned[tgt] = rhs['variant']
                    for c in walk(e):
                        if c['k'] == 'Call' and callee_name(c) == fn:
                            n += 1
                            child = cb.get(root_var(c['args'][role_index(t, 'root')]))
                            vec = root_var(c['args'][role_index(t, 'values')])
                            val = assigned.get(vec)
                            want = {0: 'True', 2: 'False'}.get(child)
                            ok = want is not None and val == want
                            R.count('X1:recursive-descent-sites'); R.obligation(ok, 'X1 %s #%d' % (fn, n))
                            if not ok:
                                R.violation('%s / X1 / descent #%d' % (fn, n), 'X1',
                                            'descending into the %s of a node records %s for its variable (true-branch must record True, false-branch False)' % (
                                                {0: 'true-branch', 2: 'false-branch'}.get(child, 'unknown child'), val), c['loc'])
        if n < 2:
            R.violation('%s / X1 / VACUITY' % fn, 'VACUITY', 'expected two recursive descents in the Choice arm, found %d' % n)

def rule_X1_dot(F, R):
    lib = F.lib()
    G = 'rsbdd::bdd_io::BDDGraph::'
    t = lib.ithir.get(G + 'edges_recursive')
    if t is None:
        R.violation(G + 'edges_recursive / X1 / anchor', 'UNDECIDABLE', 'edges_recursive not found'); return
    import facts as _facts
    t = dict(t); t['body'] = _facts.unroll_array_loops(t['body'])
    cb = choice_bindings(t)
    n = 0
    for e in walk(t['body']):
        if e['k'] == 'Tuple' and len(e['fields']) == 3:
            lit = strip(e['fields'][1])
            if lit['k'] == 'Literal' and lit.get('lit') == 'Bool':
                n += 1
                child = cb.get(root_var(e['fields'][2]))
                ok = (lit['value'] is True and child == 0) or (lit['value'] is False and child == 2)
                R.count('X1:edge-tuples'); R.obligation(ok, 'X1 edge %d' % n)
                if not ok:
                    R.violation(G + 'edges_recursive / X1 / edge #%d' % n, 'X1', 'edge flagged %s leads to the %s' % (lit['value'], {0: 'true-branch', 2: 'false-branch'}.get(child, '?')), e['loc'])
    if n < 2: R.violation(G + 'edges_recursive / X1 / VACUITY', 'VACUITY', 'expected 2 edge tuples, found %d' % n)
    # edge_label: true -> "T", false -> "F"
    lab = [k for k in lib.ithir if k.endswith('Labeller>::edge_label') and 'BDDGraph' in k]
    ok = False
    if lab:
        for e in walk(lib.ithir[lab[0]]['body']):
            if e['k'] == 'If':
                th = [x['value'] for x in walk(e['then']) if x['k'] == 'Literal' and x.get('lit') == 'Str']
                el = [x['value'] for x in walk(e['else']) if x['k'] == 'Literal' and x.get('lit') == 'Str'] if e['else'] else []
                cond = strip(e['cond'])
                neg = False
                while cond['k'] == 'Unary' and cond['op'] == 'Not': cond = strip(cond['arg']); neg = not neg
                if cond['k'] in ('VarRef',):
                    ok = (th == ['T'] and el == ['F']) if not neg else (th == ['F'] and el == ['T'])
    R.count('X1:edge-label'); R.obligation(ok, 'X1 edge_label')
    if not ok: R.violation('rsbdd::bdd_io::BDDGraph / X1 / edge_label', 'X1', 'edge label is not "T" for the true edge and "F" for the false edge')
    # node_label: leaf labels
    lab = [k for k in lib.ithir if k.endswith('Labeller>::node_label') and 'BDDGraph' in k]
    ok = False
    if lab:
        got = {}
        for m in walk(lib.ithir[lab[0]]['body']):
            if m['k'] == 'Match':
                for a in m['arms']:
                    p = unwrap_pat(a['pat'])
                    if p['k'] == 'Variant' and canon(p['adt']) == BDD:
                        got[p['variant']] = [x['value'] for x in walk(a['body']) if x['k'] == 'Literal' and x.get('lit') == 'Str']
        ok = got.get('True') == ['true'] and got.get('False') == ['false'] and 'Choice' in got
    R.count('X1:leaf-labels'); R.obligation(ok, 'X1 node_label')
    if not ok: R.violation('rsbdd::bdd_io::BDDGraph / X1 / node_label', 'X1', 'leaf nodes are not labelled "true" / "false" on the matching variants')
    # node_id: n_true / n_false on the matching variants
    nid = [k for k in lib.ithir if k.endswith('Labeller>::node_id') and 'BDDGraph' in k]
    ok = False
    if nid:
        got = {}
        for m in walk(lib.ithir[nid[0]]['body']):
            if m['k'] == 'Match':
                for a in m['arms']:
                    p = unwrap_pat(a['pat'])
                    if p['k'] == 'Variant' and canon(p['adt']) == BDD:
                        got[p['variant']] = [x['value'] for x in walk(a['body']) if x['k'] == 'Literal' and x.get('lit') == 'Str' and x['value'].startswith('n_')]
        ok = set(got.get('True') or ()) == {'n_true'} and set(got.get('False') or ()) == {'n_false'}
    R.count('X1:leaf-ids'); R.obligation(ok, 'X1 node_id')
    if not ok: R.violation('rsbdd::bdd_io::BDDGraph / X1 / node_id', 'X1', 'leaf ids are not n_true / n_false on the matching variants')

# ------------------------------------------------------------------------------------------------ X2
class PredUndec(Exception): pass

def eval_pred(e, env):
    """evaluate a Boolean THIR expression under env: var -> ('tte', variant) | ('bdd', 'True'|'False'|'Choice'); Field `filter` of self -> env['self.filter']"""
    e = strip(e)
    k = e['k']
    if k == 'LogicalOp':
        l = eval_pred(e['lhs'], env)
        if e['op'] == 'And': return l and eval_pred(e['rhs'], env)
        return l or eval_pred(e['rhs'], env)
    if k == 'Unary' and e['op'] == 'Not': return not eval_pred(e['arg'], env)
    if k == 'Literal' and e.get('lit') == 'Bool': return e['value']
    if k in ('VarRef', 'UpvarRef') and isinstance(env.get(e['var']), tuple) and env[e['var']][0] == 'bool': return env[e['var']][1]
    if k == 'Call':
        d = callee_decl(e) or ''
        if d in ('std::cmp::PartialEq::eq', 'std::cmp::PartialEq::ne'):
            a, b = eval_val(e['args'][0], env), eval_val(e['args'][1], env)
            if a[0] != b[0]: raise PredUndec('comparison of different kinds')
            return (a == b) if d.endswith('eq') else (a != b)
        if d in ('std::ops::Fn::call', 'std::ops::FnMut::call_mut', 'std::ops::FnOnce::call_once') and len(e['args']) == 2:
            # a call of a local closure, `let shown = |child: &BDD<S>| ..; if shown(l.as_ref()) ..`: its body under its arguments
            ct = env.get('#closures', {}).get(root_var(e['args'][0]))
            tup = strip(e['args'][1])
            if ct is not None and tup['k'] == 'Tuple' and len(tup['fields']) == len(ct['params']) - 1:
                env2 = dict(env)
                for prm, a_ in zip(ct['params'][1:], tup['fields']):
                    if not pat_matches(prm['pat'], eval_val(a_, env), env2): raise PredUndec('closure parameter pattern')
                return eval_pred(ct['body'], env2)
        cn = callee_name(e) or ''
        if cn in ('rsbdd::bdd::BDD::is_true', 'rsbdd::bdd::BDD::is_false', 'rsbdd::bdd::BDD::is_const', 'rsbdd::bdd::BDD::is_choice'):
            a = eval_val(e['args'][0], env)
            return {'is_true': a[1] == 'True', 'is_false': a[1] == 'False', 'is_const': a[1] != 'Choice', 'is_choice': a[1] == 'Choice'}[cn.split('::')[-1]]
        if cn in ('rsbdd::truth_table::TruthTableEntry::is_true', 'rsbdd::truth_table::TruthTableEntry::is_false', 'rsbdd::truth_table::TruthTableEntry::is_any'):
            a = eval_val(e['args'][0], env)
            return a[1] == {'is_true': 'True', 'is_false': 'False', 'is_any': 'Any'}[cn.split('::')[-1]]
    if k == 'Binary' and e['op'] in ('Eq', 'Ne'):
        a, b = eval_val(e['lhs'], env), eval_val(e['rhs'], env)
        return (a == b) if e['op'] == 'Eq' else (a != b)
    if k == 'Match' and e.get('source') in (None, 'Normal'):
        # `matches!(..)` and small Boolean matches: first arm whose pattern (and guard) accepts the scrutinee decides
        v = eval_val(e['scrutinee'], env)
        for a in e['arms']:
            env2 = dict(env)
            if pat_matches(a['pat'], v, env2):
                if a.get('guard') is not None and not eval_pred(a['guard'], env2): continue
                return eval_pred(a['body'], env2)
        raise PredUndec('no arm of the match applies')
    if k == 'Block' and not e['stmts'] and e['expr'] is not None: return eval_pred(e['expr'], env)
    raise PredUndec('predicate construct %s: %s' % (k, pp(e)[:60]))

def pat_matches(p, v, env):
    """does pattern p accept the abstract value v?  v: ('tte', variant) | ('bdd', 'True'|'False'|'Choice') | ('tuple', [..])"""
    p = unwrap_pat(p)
    k = p['k']
    if k == 'Wild': return True
    if k == 'Binding':
        env[p['var']] = v
        return p.get('sub') is None or pat_matches(p['sub'], v, env)
    if k == 'Or': return any(pat_matches(q, v, env) for q in p['pats'])
    if k == 'Variant':
        a = canon(p.get('adt', ''))
        if a == TTE and v[0] == 'tte': return p['variant'] == v[1]
        if a == BDD and v[0] == 'bdd': return p['variant'] == v[1]
        raise PredUndec('pattern of another type')
    if k == 'Leaf' and 'adt' not in p and v[0] == 'tuple':
        return all(pat_matches(sp['pat'], v[1][sp['field']], env) for sp in p['subs'])
    if k == 'Constant': raise PredUndec('constant pattern')
    raise PredUndec('pattern construct %s' % k)

def eval_val(e, env):
    e = strip(e)
    while e['k'] == 'Call' and callee_decl(e) in ('std::convert::AsRef::as_ref', 'std::ops::Deref::deref', 'std::clone::Clone::clone') and e['args']:
        e = strip(e['args'][0])
    if e['k'] in ('VarRef', 'UpvarRef'):
        if e['var'] in env: return env[e['var']]
        raise PredUndec('free variable %s' % e['var'])
    if e['k'] == 'Field' and e.get('field_name') == 'filter':
        return env['self.filter']
    if e['k'] == 'Adt':
        if canon(e['adt']) == TTE: return ('tte', e['variant'])
        if canon(e['adt']) == BDD and e['variant'] in ('True', 'False'): return ('bdd', e['variant'])
    if e['k'] == 'Tuple': return ('tuple', [eval_val(f, env) for f in e['fields']])
    raise PredUndec('value construct %s' % e['k'])

def vector_nonempty(e, env):
    """does this expression yield a non-empty vector?  `vec![x]` / `vec![]` (with `.into()`), under `if`s and lets of Boolean
    predicates; PredUndec for anything else"""
    while e['k'] in ('Use', 'NeverToAny', 'Borrow', 'Deref'): e = e.get('source') or e.get('arg')
    if e['k'] == 'Block':
        env = dict(env)
        for st in e['stmts']:
            if st['k'] == 'Let' and st.get('init') is not None:
                q = unwrap_pat(st['pat'])
                if q['k'] == 'Binding':
                    try: env[q['var']] = ('bool', eval_pred(st['init'], env))
                    except PredUndec: pass
            elif st['k'] == 'Expr' and any(x['k'] in ('Assign', 'AssignOp') or (x['k'] == 'Call' and callee_name(x) == 'std::vec::Vec::push') for x in walk(st['expr'])):
                raise PredUndec('statement with effects in the leaf arm')
        if e['expr'] is None: raise PredUndec('leaf arm without a value')
        return vector_nonempty(e['expr'], env)
    if e['k'] == 'If' and e['cond']['k'] != 'Let' and e.get('else') is not None:
        return vector_nonempty(e['then'] if eval_pred(e['cond'], env) else e['else'], env)
    if e['k'] == 'Match' and e.get('source') == 'Normal':
        v = eval_val(e['scrutinee'], env)
        for a in e['arms']:
            env2 = dict(env)
            if pat_matches(a['pat'], v, env2) and (a.get('guard') is None or eval_pred(a['guard'], env2)): return vector_nonempty(a['body'], env2)
        raise PredUndec('no arm applies')
    arrays = [x for x in walk(e) if x['k'] == 'Array']
    news = [x for x in walk(e) if x['k'] == 'Call' and (callee_name(x) or '') in ('std::vec::Vec::new', 'std::vec::Vec::with_capacity')]
    if any(x['k'] in ('If', 'Match', 'Loop') for x in walk(e)): raise PredUndec('control flow inside the vector expression')
    if arrays and all(len(x['fields']) >= 1 for x in arrays) and not news: return True
    if (news and not arrays) or (arrays and all(len(x['fields']) == 0 for x in arrays)): return False
    raise PredUndec('cannot tell whether %s is empty' % pp(e)[:50])

def dot_node_collector(lib):
    """the function of BDDGraph that lists the nodes of the diagram: `nodes_recursive` on the pinned tree; after a rewrite, the one function
    of the impl (other than edges_recursive) that matches on the diagram with a Choice arm first and calls itself on both children"""
    G = 'rsbdd::bdd_io::BDDGraph::'
    t = lib.ithir.get(G + 'nodes_recursive')
    if t is not None: return G + 'nodes_recursive', t
    import facts as _facts
    if not _facts.baseline_private(G + 'nodes_recursive'): return None, None
    cands = []
    for name, t in lib.ithir.items():
        if not name.startswith(G) or '{closure' in name or name == G + 'edges_recursive' or name in _facts.baseline_fns(): continue
        for m in walk(t['body']):
            if m['k'] == 'Match' and m['arms']:
                p0 = unwrap_pat(m['arms'][0]['pat'])
                if p0['k'] == 'Variant' and canon(p0.get('adt', '')) == BDD and p0['variant'] == 'Choice' and \
                        len([x for x in walk(m['arms'][0]['body']) if x['k'] == 'Call' and callee_name(x) == name]) >= 2:
                    cands.append((name, t)); break
    return cands[0] if len(cands) == 1 else (None, None)

def pushes_node(e, env, target='std::vec::Vec::push'):
    """does this arm put the node into the list it is given?  `if seen.insert(node) { ordered.push(node) }` (first encounter), under
    Boolean conditions on the filter; PredUndec for anything else"""
    while e['k'] in ('Use', 'NeverToAny', 'Borrow', 'Deref'): e = e.get('source') or e.get('arg')
    if e['k'] == 'Block':
        env = dict(env); hit = False
        for st in e['stmts']:
            if st['k'] == 'Let' and st.get('init') is not None:
                q = unwrap_pat(st['pat'])
                if q['k'] == 'Binding':
                    try: env[q['var']] = ('bool', eval_pred(st['init'], env))
                    except PredUndec: pass
            elif st['k'] == 'Expr': hit = pushes_node(st['expr'], env, target) or hit
        if e.get('expr') is not None: hit = pushes_node(e['expr'], env, target) or hit
        return hit
    if e['k'] == 'If' and e['cond']['k'] != 'Let':
        c = strip(e['cond'])
        if c['k'] == 'Call' and (callee_name(c) or '').endswith('Set::insert'): cv = True          # the first time the node is met
        else: cv = eval_pred(e['cond'], env)
        if cv: return pushes_node(e['then'], env, target)
        return pushes_node(e['else'], env, target) if e.get('else') is not None else False
    if e['k'] == 'Match' and e.get('source') == 'Normal':
        v = eval_val(e['scrutinee'], env)
        for a in e['arms']:
            env2 = dict(env)
            if pat_matches(a['pat'], v, env2) and (a.get('guard') is None or eval_pred(a['guard'], env2)): return pushes_node(a['body'], env2, target)
        raise PredUndec('no arm applies')
    if e['k'] == 'Call' and callee_name(e) == target: return True
    if e['k'] == 'Tuple' and not e['fields']: return False
    if any(x['k'] == 'Call' and callee_name(x) == target for x in walk(e)): raise PredUndec('push under %s' % e['k'])
    return False

def leaf_declared(t, leaf, filt):
    """nodes_recursive on a leaf: is the leaf put into the node list under this filter?  Evaluates the arms after the Choice arm."""
    for m in walk(t['body']):
        if m['k'] != 'Match' or not m['arms']: continue
        p0 = unwrap_pat(m['arms'][0]['pat'])
        if not (p0['k'] == 'Variant' and canon(p0['adt']) == BDD and p0['variant'] == 'Choice'): continue
        for a in m['arms'][1:]:
            env = {'self.filter': ('tte', filt)}
            if pat_matches(a['pat'], ('bdd', leaf), env) and (a.get('guard') is None or eval_pred(a['guard'], env)):
                if any(x['k'] == 'Call' and callee_name(x) == 'std::vec::Vec::push' for x in walk(a['body'])) or strip(a['body'])['k'] in ('Tuple',) or \
                        (strip(a['body'])['k'] == 'Block' and not strip(a['body'])['stmts'] and strip(a['body']).get('expr') is None):
                    return pushes_node(a['body'], env)          # the walker form: the node is appended to a list passed in
                return vector_nonempty(a['body'], env)
        raise PredUndec('no arm of nodes_recursive applies to a %s leaf' % leaf)
    raise PredUndec('the match on the diagram was not found')

def leaf_arm_predicate(t, fn, R, what):
    """find the match arm `c if <guard>` following the Choice arm; returns (guard expr, bound var, filter var name)"""
    for m in walk(t['body']):
        if m['k'] != 'Match': continue
        arms = m['arms']
        if not arms: continue
        p0 = unwrap_pat(arms[0]['pat'])
        if not (p0['k'] == 'Variant' and canon(p0['adt']) == BDD and p0['variant'] == 'Choice'): continue
        for a in arms[1:]:
            p = unwrap_pat(a['pat'])
            if p['k'] == 'Binding' and a['guard'] is not None:
                return a, p['var'], arms
    return None, None, None

def rule_X2(F, R, parts=('table', 'dot')):
    binc, lib = F.bin(), F.lib()
    FILTERS = ['True', 'False', 'Any']
    if 'table' in parts: _x2_table(F, R, binc, FILTERS)
    if 'dot' in parts: _x2_dot(F, R, lib, FILTERS)

def _x2_table(F, R, binc, FILTERS):
    # (a) truth-table rows
    fn = 'rsbdd::print_truth_table_recursive'
    t = guards_as_branches(binc.ithir.get(fn))
    arms = None
    if t:
        for m in walk(t['body']):
            if m['k'] != 'Match' or not m['arms']: continue
            p0 = unwrap_pat(m['arms'][0]['pat'])
            if p0['k'] == 'Variant' and canon(p0['adt']) == BDD and p0['variant'] == 'Choice': arms = m['arms']; break
    if arms is None or len(arms) < 2:
        R.violation('%s / X2 / anchor' % fn, 'UNDECIDABLE', 'cannot find the leaf arms of the truth-table printer')
    else:
        # the arms after the Choice arm, tried in order on a leaf: the first whose pattern and guard accept it decides whether the row is printed
        fvar = [p['pat']['var'] for p in t['params'] if 'pat' in p and p['pat'].get('name') == 'filter']
        prints = lambda a_: any(x['k'] == 'Call' and callee_name(x) == 'rsbdd::print_sized_line' for x in walk(a_['body']))
        for f in FILTERS:
            for leaf in ('True', 'False'):
                got = False; where = arms[1]
                try:
                    for a_ in arms[1:]:
                        env = {}
                        if fvar: env[fvar[0]] = ('tte', f)
                        if not pat_matches(a_['pat'], ('bdd', leaf), env): continue
                        if a_.get('guard') is not None and not eval_pred(a_['guard'], env): continue
                        got = prints(a_); where = a_
                        if got:
                            # the row is written somewhere in the arm: under which of its own conditions (`let shown = match filter {..}; if shown {..}`)
                            try: got = pushes_node(a_['body'], env, 'rsbdd::print_sized_line')
                            except PredUndec: got = True
                        break
                except PredUndec as u:
                    R.violation('%s / X2 / UNDECIDABLE' % fn, 'UNDECIDABLE', 'row filter predicate: %s' % u, (a_.get('guard') or a_['body']).get('loc')); break
                want = (f == 'Any') or (f == leaf)
                R.count('X2:row-filter-cases'); R.obligation(got == want, 'X2 row %s %s' % (f, leaf))
                if got != want:
                    R.violation('%s / X2 / filter=%s leaf=%s' % (fn, f, leaf), 'X2', 'with filter %s a row ending in %s is %s; it must be %s' % (f, leaf, 'printed' if got else 'omitted', 'printed' if want else 'omitted'), (where.get('guard') or where['body']).get('loc'))
    # (b) -v prints only at True
    fn = 'rsbdd::print_true_vars_recursive'
    t = guards_as_branches(binc.ithir.get(fn))
    if t:
        printing = []
        for m in walk(t['body']):
            if m['k'] == 'Match' and m['arms'] and unwrap_pat(m['arms'][0]['pat'])['k'] == 'Variant' and unwrap_pat(m['arms'][0]['pat']).get('variant') == 'Choice':
                for a in m['arms']:
                    p = unwrap_pat(a['pat'])
                    if any(is_stdout_write(x) for x in walk(a['body'])):
                        printing.append(p.get('variant') if p['k'] == 'Variant' else pp_pat(a['pat']))
        ok = printing == ['True']
        # ... once per satisfying row, whatever the row holds: the line is written unconditionally in the True arm (a row in which
        # every variable is False is the line `;`), and each variable is named iff its entry is True, or Any with a `*`
        true_arm = None
        for m in walk(t['body']):
            if m['k'] == 'Match' and m['arms'] and unwrap_pat(m['arms'][0]['pat'])['k'] == 'Variant' and unwrap_pat(m['arms'][0]['pat']).get('variant') == 'Choice':
                for a in m['arms']:
                    p = unwrap_pat(a['pat'])
                    if p['k'] == 'Variant' and p.get('variant') == 'True': true_arm = a
        if ok and true_arm is not None:
            def conditional(e, under):
                hit = []
                def rec(x, under):
                    if not isinstance(x, dict): return
                    if is_stdout_write(x) and under: hit.append(x)
                    u2 = under or (x.get('k') in ('If', 'Loop') or (x.get('k') == 'Match' and 'TryDesugar' not in str(x.get('source'))))
                    from facts import children
                    if x.get('k') == 'If':
                        # the test itself runs whenever the `if` is reached (`if let Err(e) = writeln!(out, ..) { panic!(..) }`)
                        rec(x['cond'], under)
                        rec(x['then'], True)
                        if x.get('else') is not None: rec(x['else'], True)
                        return
                    if x.get('k') == 'Let':
                        rec(x['expr'], under); return
                    for ch in children(x): rec(ch, u2)
                rec(e, under)
                return hit
            cond_prints = conditional(true_arm['body'], False)
            R.count('X2:vars-line-unconditional'); R.obligation(not cond_prints, 'X2 -v unconditional')
            if cond_prints:
                R.violation('%s / X2 / line per satisfying row' % fn, 'X2', '-v must write one line for every satisfying row; the line is written under a condition (a row that names no variable would be dropped)', cond_prints[0].get('loc'))
            try:
                shown = _vars_line_entries(binc, true_arm['body'])
                want = {'True': ['name'], 'Any': ['name*'], 'False': []}
                okc = shown == want
                why = 'an entry True must show the name, Any the name followed by `*`, False nothing; found %s' % shown
            except PredUndec as u:
                okc = False; why = 'cannot read how the line of a satisfying row is built: %s' % u
            R.count('X2:vars-line-entries', 3); R.obligation(okc, 'X2 -v entries')
            if not okc: R.violation('%s / X2 / names on the line' % fn, 'X2' if 'cannot read' not in why else 'UNDECIDABLE', why, true_arm['body'].get('loc'))
        R.count('X2:vars-printer-arms'); R.obligation(ok, 'X2 -v')
        if not ok: R.violation('%s / X2 / printing arms' % fn, 'X2', '-v must print exactly at the True leaf; printing arms: %s' % printing)

class _SkipEntry(Exception): pass

def _vars_line_entries(binc, arm_body):
    """what the -v line shows for one table entry, per entry value: {'True': [..], 'Any': [..], 'False': [..]} with items 'name' / 'name*'.
    Reads the one place that walks the entries: a `for` loop pushing into the list that is joined (or appending to the line directly,
    separators under a first-element flag), or a `filter_map` closure."""
    tp_ = binc.ithir.get('rsbdd::print_true_vars_recursive')
    import re as _re
    names_params = set()
    if tp_ is not None:
        for p_ in tp_['params']:
            if 'pat' in p_ and _re.search(r'(\[|Vec<)std::string::String', str((p_.get('ty') or {}).get('s'))): names_params.add(unwrap_pat(p_['pat']).get('var'))
    entry_binds = set()
    zipped_names = set()
    def note_zip(it, pat):
        # which bindings of the loop pattern are the headers zipped on: zip(a, b) with pattern (pa, pb); enumerate(x) with pattern (i, p)
        it = strip(it); pat = unwrap_pat(pat)
        while it['k'] == 'Call' and it['args'] and (callee_name(it) or '').split('::')[-1] in ('iter', 'into_iter', 'by_ref') and len(it['args']) == 1: it = strip(it['args'][0])
        if it['k'] != 'Call' or pat['k'] != 'Leaf' or 'adt' in pat: return
        subs = {sp['field']: sp['pat'] for sp in pat['subs']}
        d = callee_decl(it)
        if d == 'std::iter::Iterator::enumerate' and 1 in subs: note_zip(it['args'][0], subs[1])
        if d == 'std::iter::Iterator::zip' and len(it['args']) == 2:
            for k_, a_ in enumerate(it['args']):
                if k_ in subs:
                    if root_var(a_) in names_params and strip(a_)['k'] != 'Call' or (strip(a_)['k'] == 'Call' and (callee_name(strip(a_)) or '').split('::')[-1] in ('iter', 'into_iter') and root_var(a_) in names_params):
                        zipped_names.update(walk_pat_bindings(subs[k_]))
                    else: note_zip(a_, subs[k_])
    def item_kind(e):
        # the name shown for an entry is the header of *that* column: names[i] with `names` the parameter holding the free-variable
        # headers and i the position of the entry in the row - not a look-up in another list (the full variable list is longer)
        idx = [x for x in walk(e) if x['k'] == 'Index' or (x['k'] == 'Call' and callee_decl(x) in ('std::ops::Index::index',)) or
               (x['k'] == 'Call' and (callee_name(x) or '').split('::')[-1] in ('get', 'get_unchecked', 'nth') and len(x['args']) == 2)]
        foreign = [x for x in walk(e) if x['k'] == 'Call' and (callee_name(x) or '').startswith('rsbdd::parser::')]
        loopvars_ = set(x['var'] for x in walk(e) if x['k'] in ('VarRef', 'UpvarRef') and x['var'] in entry_binds)
        if tp_ is not None and not idx and not foreign and loopvars_ and loopvars_ <= zipped_names:
            pass          # `for (value, name) in values.iter().zip(names)`: the header walks along with the entry
        elif tp_ is not None:
            okn = len(idx) == 1 and not foreign
            if okn:
                b_, i_ = (idx[0]['lhs'], idx[0]['index']) if idx[0]['k'] == 'Index' else (idx[0]['args'][0], idx[0]['args'][1])
                bb_ = strip(b_)
                while bb_['k'] == 'Call' and bb_['args'] and (callee_name(bb_) or '').split('::')[-1] in ('iter', 'deref', 'as_slice', 'as_ref', 'clone'): bb_ = strip(bb_['args'][0])
                from_free = bb_['k'] == 'Field' and bb_.get('field_name') == 'free_vars'          # parsed.free_vars[i]: the same headers, read at the source
                okn = (root_var(b_) in names_params or from_free) and root_var(i_) in entry_binds
            if not okn: raise PredUndec('the name shown for an entry must be <names parameter>[<position of the entry>]; found %s' % pp(e)[:60])
        star = any(x['k'] == 'Literal' and ((x.get('lit') == 'Str' and '*' in x['value']) or (x.get('lit') == 'ByteStr' and b'*' in bytes(x['value']))) for x in walk(e))
        other = [x['value'] for x in walk(e) if x['k'] == 'Literal' and x.get('lit') == 'Str' and x['value'] not in ('*', '')]
        if other: raise PredUndec('the shown name is decorated with %r' % other[0])
        return 'name*' if star else 'name'
    def sval(e, env):
        """a piece of text chosen by the entry value: `if *v == True { "" } else if *v == Any { "*" } else { continue }`"""
        while e['k'] in ('Use', 'NeverToAny', 'Borrow', 'Deref'): e = e.get('source') or e.get('arg')
        if e['k'] == 'Literal' and e.get('lit') == 'Str': return e['value']
        if e['k'] == 'Block':
            if e['stmts'] and all(st['k'] == 'Expr' for st in e['stmts']) and e.get('expr') is None and len(e['stmts']) == 1: return sval(e['stmts'][0]['expr'], env)
            if not e['stmts'] and e.get('expr') is not None: return sval(e['expr'], env)
        if e['k'] == 'Continue': raise _SkipEntry()
        if e['k'] == 'If' and e['cond']['k'] != 'Let' and e.get('else') is not None:
            return sval(e['then'] if eval_pred(e['cond'], env) else e['else'], env)
        if e['k'] == 'Match' and e.get('source') in (None, 'Normal'):
            v = eval_val(e['scrutinee'], env)
            for a in e['arms']:
                env2 = dict(env)
                if pat_matches(a['pat'], v, env2) and (a.get('guard') is None or eval_pred(a['guard'], env2)): return sval(a['body'], env2)
        raise PredUndec('text piece %s' % pp(e)[:40])
    def piece(x, env):
        x0 = x
        while x['k'] in ('Use', 'NeverToAny', 'Borrow', 'Deref'): x = x.get('source') or x.get('arg')
        if x['k'] == 'Literal' and x.get('lit') == 'Str': return ('lit', x['value'])
        if x['k'] in ('VarRef', 'UpvarRef') and isinstance(env.get(x['var']), tuple) and env[x['var']][0] == 'str': return ('lit', env[x['var']][1])
        return ('item', item_kind(x0))
    def is_sep(p): return p[0] == 'lit' and p[1].strip() in (',', '')
    def run(e, env, out):
        while e['k'] in ('Use', 'NeverToAny'): e = e['source']
        k = e['k']
        if k == 'Block':
            for st in e['stmts']:
                if st['k'] == 'Expr': run(st['expr'], env, out)
                elif st['k'] == 'Let' and st.get('init') is not None:
                    if any(x['k'] == 'Call' and (callee_name(x) or '').split('::')[-1] in ('push', 'push_str') for x in walk(st['init'])): raise PredUndec('push inside a let')
                    q = unwrap_pat(st['pat'])
                    if q['k'] == 'Binding' and st['init'].get('exp') is None:
                        try: env[q['var']] = ('str', sval(st['init'], env))
                        except PredUndec: pass
            if e.get('expr') is not None: run(e['expr'], env, out)
            return
        if k == 'Continue': raise _SkipEntry()
        if k in ('Assign', 'AssignOp'): return
        if k == 'If':
            if e['cond']['k'] == 'Let': raise PredUndec('if-let in the entry walk')
            try: c = eval_pred(e['cond'], env)
            except PredUndec:
                # a condition on something other than the entry (a first-element flag): both branches may only add separators
                for br in (e['then'], e.get('else')):
                    if br is None: continue
                    o2 = []; run(br, dict(env), o2)
                    if not all(is_sep(p) for p in o2): raise
                return
            if c: run(e['then'], env, out)
            elif e.get('else') is not None: run(e['else'], env, out)
            return
        if k == 'Match' and e.get('source') in (None, 'Normal'):
            v = eval_val(e['scrutinee'], env)
            for a in e['arms']:
                env2 = dict(env)
                if pat_matches(a['pat'], v, env2) and (a.get('guard') is None or eval_pred(a['guard'], env2)):
                    run(a['body'], env2, out); return
            raise PredUndec('no arm applies')
        if k == 'Call' and callee_name(e) == 'std::vec::Vec::push':
            out.append(('item', item_kind(e['args'][1]))); return
        if k == 'Call' and callee_name(e) in ('std::string::String::push_str', 'std::string::String::push'):
            out.append(piece(e['args'][1], env)); return
        if k == 'Adt' and canon(e['adt']) == 'std::option::Option':
            if e['variant'] == 'Some': out.append(('item', item_kind(e['fields'][0]['expr'])))
            return
        if k in ('Tuple',) and not e['fields']: return
        if k == 'Match' and 'TryDesugar' in str(e.get('source')): raise PredUndec('`?` inside the entry walk')
        if any(x['k'] == 'Call' and (callee_name(x) or '').split('::')[-1] in ('push', 'push_str') for x in walk(e)): raise PredUndec('push under %s' % k)
    # the walk over the entries
    cands = []
    for x in walk(arm_body):
        if x['k'] == 'Match' and x.get('source') == 'ForLoopDesugar':
            for m_ in walk(x['arms'][0]['body']):
                if m_['k'] == 'Match' and m_.get('source') == 'ForLoopDesugar':
                    for a_ in m_['arms']:
                        p_ = unwrap_pat(a_['pat'])
                        if p_['k'] == 'Variant' and p_['variant'] == 'Some' and p_['subs']:
                            cands.append((walk_pat_bindings(p_['subs'][0]['pat']), a_['body']))
                            sc_ = strip(x['scrutinee'])
                            if sc_['k'] == 'Call' and sc_['args']: note_zip(sc_['args'][0], p_['subs'][0]['pat'])
                    break
        if x['k'] == 'Call' and callee_decl(x) == 'std::iter::Iterator::filter_map' and len(x['args']) == 2:
            cl = [y for y in walk(x['args'][1]) if y['k'] == 'Closure']
            ct = binc.ithir.get(canon(cl[0]['def'])) if cl else None
            if ct is not None and len(ct['params']) == 2: cands.append((walk_pat_bindings(ct['params'][1]['pat']), ct['body']))
    if len(cands) != 1: raise PredUndec('expected one walk over the entries of the row, found %d' % len(cands))
    binds, body = cands[0]
    entry_binds.update(binds)
    res = {}
    for v in ('True', 'Any', 'False'):
        out = []
        try: run(body, {b_: ('tte', v) for b_ in binds}, out)
        except _SkipEntry: out = [p for p in out if False]
        out = [p for p in out if not is_sep(p)]
        items = []
        cur = None
        for p in out:
            if p[0] == 'item':
                if cur is not None: items.append(cur)
                cur = p[1]
            elif cur is None: raise PredUndec('text %r before the name' % p[1])
            elif p[1] == '*' and cur == 'name': cur = 'name*'
            elif p[1] == '': pass
            else: raise PredUndec('the shown name is decorated with %r' % p[1])
        if cur is not None: items.append(cur)
        res[v] = items
    return res

def _x2_dot(F, R, lib, FILTERS):
    # (c) dot: declared leaf <=> same predicate; edge into a leaf emitted <=> that leaf declared
    G = 'rsbdd::bdd_io::BDDGraph::'
    _nm, t = dot_node_collector(lib)
    declared = {}
    if t is None:
        R.violation(G + 'nodes_recursive / X2 / anchor', 'UNDECIDABLE', 'nodes_recursive not found')
    else:
        for f in FILTERS:
            for leaf in ('True', 'False'):
                try:
                    got = leaf_declared(t, leaf, f)
                except PredUndec as u:
                    R.violation(G + 'nodes_recursive / X2 / UNDECIDABLE', 'UNDECIDABLE', 'leaf declaration predicate: %s' % u); got = None; break
                declared[(f, leaf)] = got
                want = (f == 'Any') or (f == leaf)
                R.count('X2:dot-leaf-cases'); R.obligation(got == want, 'X2 dotleaf %s %s' % (f, leaf))
                if got != want:
                    R.violation(G + 'nodes_recursive / X2 / filter=%s leaf=%s' % (f, leaf), 'X2', 'with filter %s the %s leaf is %s; it must be %s' % (f, leaf, 'declared' if got else 'omitted', 'declared' if want else 'omitted'))
    t = lib.ithir.get(G + 'edges_recursive')
    if t:
        import facts as _facts
        t = dict(t); t['body'] = _facts.unroll_array_loops(t['body'])      # `for (flag, child) in [(true, l), (false, r)] {..}` is its two copies
        cb = choice_bindings(t)
        closures = {}
        for b_ in walk(t['body']):
            if b_['k'] == 'Block':
                for st in b_['stmts']:
                    if st['k'] == 'Let' and st.get('init') is not None and strip(st['init'])['k'] == 'Closure' and unwrap_pat(st['pat'])['k'] == 'Binding':
                        ct_ = lib.ithir.get(canon(strip(st['init'])['def']))
                        if ct_ is not None: closures[unwrap_pat(st['pat'])['var']] = ct_
        n = 0
        for e in walk(t['body']):
            if e['k'] == 'If' and any(x['k'] == 'Call' and callee_name(x) == 'std::vec::Vec::push' for x in walk(e['then'])):
                # which child does the pushed tuple lead to?
                tup = [x for x in walk(e['then']) if x['k'] == 'Tuple' and len(x['fields']) == 3]
                if not tup: continue
                cv = root_var(tup[0]['fields'][2])
                n += 1
                for f in FILTERS:
                    for child in ('True', 'False', 'Choice'):
                        try:
                            got = eval_pred(e['cond'], {cv: ('bdd', child), 'self.filter': ('tte', f), '#closures': closures})
                        except PredUndec as u:
                            R.violation(G + 'edges_recursive / X2 / UNDECIDABLE', 'UNDECIDABLE', 'edge predicate: %s' % u, e['cond'].get('loc')); got = None; break
                        want = True if child == 'Choice' else ((f == 'Any') or (f == child))
                        R.count('X2:dot-edge-cases'); R.obligation(got == want, 'X2 edge%d %s %s' % (n, f, child))
                        if got != want:
                            R.violation(G + 'edges_recursive / X2 / edge#%d filter=%s child=%s' % (n, f, child), 'X2',
                                        'with filter %s the edge into a %s child is %s, but that node is %s' % (f, child, 'emitted' if got else 'omitted', 'declared' if want else 'not declared'), e['cond'].get('loc'))
        if n < 2: R.violation(G + 'edges_recursive / X2 / VACUITY', 'VACUITY', 'expected 2 guarded edge pushes, found %d' % n)

# ------------------------------------------------------------------------------------------------ X3 index domains
def rule_X3(F, R):
    """Domains: ('free', k) = a sequence with |free_vars| + k entries.  Every index into such a sequence must be provably below its length."""
    binc, lib = F.bin(), F.lib()
    PF = 'rsbdd::parser::ParsedFormula::'
    # (1) to_free_index returns a position in free_vars
    t = lib.ithir.get(PF + 'to_free_index')
    ok = False; why = 'to_free_index not found'
    if t:
        calls = [e for e in walk(t['body']) if e['k'] == 'Call']
        idx = [e for e in walk(t['body']) if e['k'] == 'Index' or (e['k'] == 'Call' and (callee_decl(e) or '').startswith('std::ops::Index'))]
        srch = [e for e in calls if (callee_name(e) or '') in ('core::slice::<impl [T]>::binary_search_by', 'std::iter::Iterator::position', 'core::slice::<impl [T]>::binary_search_by_key', 'core::slice::<impl [T]>::binary_search') or (callee_decl(e) or '') == 'std::iter::Iterator::position']
        if idx:
            # an indexed table: its index must be of the domain the table was written in
            e = idx[0]
            base = strip(e['lhs'] if e['k'] == 'Index' else e['args'][0]); ix = strip(e['index'] if e['k'] == 'Index' else e['args'][1])
            tbl = base.get('field_name') if base['k'] == 'Field' else None
            ixf = ix.get('field_name') if ix['k'] == 'Field' else None
            wdom = table_write_domain(lib, tbl)
            why = 'table `%s` is written per %s but indexed with `%s`' % (tbl, wdom, ixf or pp(ix)[:30])
            ok = (wdom == 'position in vars' and False) or (wdom == 'id' and ixf == 'id')
        elif len(srch) == 1:
            recv = strip(srch[0]['args'][0])
            while recv['k'] == 'Call' and callee_decl(recv) in ('std::ops::Deref::deref', 'core::slice::<impl [T]>::iter') or (recv['k'] == 'Call' and callee_name(recv) == 'core::slice::<impl [T]>::iter'):
                recv = strip(recv['args'][0])
            on_free = recv['k'] == 'Field' and recv.get('field_name') == 'free_vars'
            ok = on_free
            why = 'search over %s' % (recv.get('field_name') or pp(recv)[:40])
            if ok and (callee_name(srch[0]) or '').endswith('binary_search_by_key'):
                # binary_search_by_key(&key.id, |v| v.id): key and probe projection are both the id
                ka = strip(srch[0]['args'][1])
                cl = [x for x in walk(srch[0]['args'][2]) if x['k'] == 'Closure']
                okc = False
                if cl and ka['k'] == 'Field' and ka.get('field_name') == 'id':
                    ct = lib.ithir.get(canon(cl[0]['def']))
                    b_ = ct['body']
                    while b_['k'] in ('Use', 'NeverToAny') or (b_['k'] == 'Block' and not b_['stmts'] and b_['expr'] is not None): b_ = b_['source'] if b_['k'] != 'Block' else b_['expr']
                    b_ = strip(b_)
                    pn = unwrap_pat(ct['params'][1]['pat']).get('var') if len(ct['params']) == 2 else None
                    okc = b_['k'] == 'Field' and b_.get('field_name') == 'id' and root_var(b_['lhs']) == pn
                ok = okc
                if not okc: why = 'binary_search_by_key must search the key\'s id among the elements\' ids (free_vars is sorted ascending by id)'
            elif ok and 'binary_search_by' in (callee_name(srch[0]) or ''):
                # comparator must order the probe element against the key by id, element first
                cl = [x for x in walk(srch[0]['args'][1]) if x['k'] == 'Closure']
                okc = False
                if cl:
                    ct = lib.ithir.get(canon(cl[0]['def']))
                    cs = [x for x in walk(ct['body']) if x['k'] == 'Call' and (callee_decl(x) == 'std::cmp::Ord::cmp')]
                    if len(cs) == 1:
                        a0, a1 = strip(cs[0]['args'][0]), strip(cs[0]['args'][1])
                        okc = a0['k'] == 'Field' and a0['field_name'] == 'id' and strip(a0['lhs'])['k'] == 'VarRef' and \
                            a1['k'] == 'Field' and a1['field_name'] == 'id' and strip(a1['lhs'])['k'] == 'UpvarRef'
                ok = okc
                if not okc: why = 'binary search comparator is not `element.id.cmp(&key.id)` (free_vars is sorted ascending by id)'
    R.count('X3:index-functions'); R.obligation(ok, 'X3 to_free_index')
    if not ok:
        R.violation(PF + 'to_free_index / X3 / domain', 'X3', 'to_free_index does not yield a position in free_vars: %s' % why, t['span']['loc'] if t else None)
    # (2) free_vars is sorted by id: vars sorted by id before the loop that pushes into free_vars in order
    t = lib.ithir.get(PF + 'new_with_env')
    ok = False
    if t:
        okc = any(sorts_ascending_by_id(e, lib) for e in walk(t['body']) if e['k'] == 'Call' and 'sort' in (callee_name(e) or '').split('::')[-1])
        pushes = [e for e in walk(t['body']) if e['k'] == 'Call' and callee_name(e) == 'std::vec::Vec::push' and strip(e['args'][0]).get('field_name') == 'free_vars']
        ok = okc and (len(pushes) == 1 or (not pushes and free_vars_by_chain(lib, t, PF)))
    R.count('X3:ordering-of-free_vars'); R.obligation(ok, 'X3 sorted')
    if not ok: R.violation(PF + 'new_with_env / X3 / free_vars order', 'X3', 'vars is not sorted ascending by id before free_vars is filled in that order (header order and column look-up rely on it)')
    # (3) sequences in main and the printers
    main = binc.ithir.get('rsbdd::main')
    if main is None:
        R.violation('rsbdd::main / X3 / anchor', 'UNDECIDABLE', 'main not found'); return
    dom = {}
    def dom_of(e):
        e = strip(e)
        if e['k'] in ('VarRef', 'UpvarRef'): return dom.get(e['var'])
        if e['k'] == 'Field' and e.get('field_name') == 'free_vars': return 0
        if e['k'] == 'Call':
            d = callee_decl(e) or ''; c = callee_name(e) or ''
            if d in ('std::ops::Deref::deref', 'std::iter::Iterator::map', 'std::iter::Iterator::cloned', 'std::iter::Iterator::collect', 'std::clone::Clone::clone',
                     'std::iter::IntoIterator::into_iter', 'std::iter::Iterator::copied') or c in ('core::slice::<impl [T]>::iter', 'std::slice::<impl [T]>::to_vec'):
                return dom_of(e['args'][0])
            if d == 'std::iter::Iterator::chain' and len(e['args']) == 2:
                # seq.iter().chain(once(x)): one longer
                a_ = dom_of(e['args'][0]); b_ = strip(e['args'][1])
                if isinstance(a_, int) and b_['k'] == 'Call' and (callee_name(b_) or '').split('::')[-1] == 'once' and (callee_name(b_) or '').startswith(('std::iter::', 'core::iter::')): return a_ + 1
                return None
            if c in ('std::vec::Vec::new', 'std::vec::Vec::with_capacity'): return ('fresh', 0)
            if c in ('std::vec::from_elem', 'alloc::vec::from_elem') and len(e['args']) == 2:      # vec![x; seq.len()]
                n = strip(e['args'][1])
                if n['k'] in ('VarRef', 'UpvarRef'): return lens.get(n['var'])
                if n['k'] == 'Call' and (callee_name(n) or '') in ('core::slice::<impl [T]>::len', 'std::vec::Vec::len'): return dom_of(n['args'][0])
        if e['k'] == 'Block':
            # a block that builds a vector: `let mut v = Vec::new(); for x in SEQ { v.push(..) } v.push(..); v`
            saved = dict(dom)
            try:
                for st in stmts_in_order(e)[:-1] if e['expr'] is not None else stmts_in_order(e): step(st)
                return dom_of(e['expr']) if e['expr'] is not None else None
            finally:
                keep = {k_: v_ for k_, v_ in dom.items() if k_ not in saved}
                dom.clear(); dom.update(saved)
        return None
    def step(s):
        """effect of one statement on the sequence domains: lets, pushes, and loops that push once per element of a sequence"""
        if s['k'] == 'Let':
            q = unwrap_pat(s['pat'])
            if q['k'] == 'Binding' and s['init'] is not None:
                d = dom_of(s['init'])
                if d is not None: dom[q['var']] = d
            elif q['k'] == 'Leaf' and 'adt' not in q and s['init'] is not None:
                # `let (titles, widths) = pairs.unzip();`: two sequences as long as the iterator of pairs
                i0 = strip(s['init'])
                if i0['k'] == 'Call' and callee_decl(i0) == 'std::iter::Iterator::unzip' and i0['args']:
                    d = dom_of(i0['args'][0])
                    if isinstance(d, int):
                        for sp in q['subs']:
                            b_ = unwrap_pat(sp['pat'])
                            if b_['k'] == 'Binding': dom[b_['var']] = d
            return
        e = s['expr']
        while e['k'] in ('Use', 'NeverToAny') or (e['k'] == 'Block' and not e['stmts'] and e['expr'] is not None): e = e['source'] if e['k'] != 'Block' else e['expr']
        if e['k'] == 'Call' and callee_name(e) == 'std::vec::Vec::push':
            v = root_var(e['args'][0])
            if v in dom: dom[v] = dom[v] + 1 if not isinstance(dom[v], tuple) else ('fresh', dom[v][1] + 1)
            return
        if e['k'] == 'Match' and e.get('source') == 'ForLoopDesugar':
            sc = strip(e['scrutinee'])
            src = dom_of(sc['args'][0]) if sc['k'] == 'Call' and sc['args'] else None
            lbody = None          # the loop body proper: the Some(..) arm of the desugared `match iter.next()`
            for m_ in walk(e['arms'][0]['body']):
                if m_['k'] == 'Match' and m_.get('source') == 'ForLoopDesugar':
                    for a_ in m_['arms']:
                        p_ = unwrap_pat(a_['pat'])
                        if p_['k'] == 'Variant' and p_['variant'] == 'Some': lbody = a_['body']
                    break
            if lbody is None: lbody = e
            pushes = [x for x in walk(lbody) if x['k'] == 'Call' and callee_name(x) == 'std::vec::Vec::push']
            guarded_ = [x for x in walk(lbody) if x['k'] in ('If', 'Break', 'Continue', 'Return', 'Loop') or (x['k'] == 'Match' and x.get('source') != 'TryDesugar' and 'TryDesugar' not in str(x.get('source')))]
            for v in set(root_var(x['args'][0]) for x in pushes):
                if v not in dom: continue
                mine = [x for x in pushes if root_var(x['args'][0]) == v]
                if isinstance(dom[v], tuple) and dom[v][0] == 'fresh' and len(mine) == 1 and not guarded_ and isinstance(src, int):
                    dom[v] = src + dom[v][1]        # one push per element of a sequence of known length
                else:
                    del dom[v]                      # anything else: length unknown
    lens = {}      # variables holding the length of a sequence: var -> domain of that sequence
    for s in stmts_in_order(main['body']):
        if s['k'] == 'Let' and s['init'] is not None and unwrap_pat(s['pat'])['k'] == 'Binding':
            n = strip(s['init'])
            if n['k'] == 'Call' and (callee_name(n) or '') in ('core::slice::<impl [T]>::len', 'std::vec::Vec::len'):
                d = dom_of(n['args'][0])
                if d is not None: lens[unwrap_pat(s['pat'])['var']] = d
    for s in stmts_in_order(main['body']):
        step(s)
    for v in [k_ for k_, d_ in dom.items() if isinstance(d_, tuple)]: del dom[v]      # vectors that never received the elements of a sequence
    pdom = {}     # (fn, param index) -> set of domains passed
    for e in walk(main['body']):
        if e['k'] == 'Call' and (callee_name(e) or '') in ('rsbdd::print_truth_table_recursive', 'rsbdd::print_true_vars_recursive', 'rsbdd::print_header'):
            for i, a in enumerate(e['args']):
                d = dom_of(a)
                if d is not None: pdom.setdefault((callee_name(e), i), set()).add(d)
    R.sample({'rule': 'X3', 'sequence domains in main (|free_vars| + k)': {k.split('#')[0]: v for k, v in dom.items()}, 'parameter domains': {'%s#%d' % (k[0].split('::')[-1], k[1]): sorted(v) for k, v in pdom.items()}})
    def check_fn(fn, pd, depth=0):
        t = binc.ithir.get(fn)
        if t is None: return
        vd = {}
        for i, p in enumerate(t['params']):
            if 'pat' in p and unwrap_pat(p['pat'])['k'] == 'Binding' and i in pd:
                vd[unwrap_pat(p['pat'])['var']] = pd[i]
        idom = {}      # index variables: var -> k meaning value < |free| + k
        def seq_dom(e):
            e = strip(e)
            if e['k'] in ('VarRef', 'UpvarRef'): return vd.get(e['var'])
            if e['k'] == 'Call':
                d = callee_decl(e) or ''; c = callee_name(e) or ''
                if d in ('std::ops::Deref::deref', 'std::clone::Clone::clone', 'std::borrow::ToOwned::to_owned') or c in ('core::slice::<impl [T]>::iter', 'std::slice::<impl [T]>::to_vec', 'std::vec::Vec::as_slice', 'std::vec::Vec::as_mut_slice'): return seq_dom(e['args'][0])
                # iterators over a sequence of known length: as long as the sequence, `chain(.., once(x))` one longer
                if d in ('std::iter::Iterator::map', 'std::iter::Iterator::cloned', 'std::iter::Iterator::copied', 'std::iter::IntoIterator::into_iter', 'std::iter::Iterator::by_ref') and e['args']:
                    return seq_dom(e['args'][0])
                if d == 'std::iter::Iterator::chain' and len(e['args']) == 2:
                    a = seq_dom(e['args'][0]); b = strip(e['args'][1])
                    if a is not None and b['k'] == 'Call' and (callee_name(b) or '').split('::')[-1] == 'once' and (callee_name(b) or '').startswith(('std::iter::', 'core::iter::')): return a + 1
            return None
        # let-aliases (flow-insensitive is enough: vectors are only cloned/moved)
        changed = True
        while changed:
            changed = False
            for e in walk(t['body']):
                if e['k'] == 'Block':
                    for s in e['stmts']:
                        if s['k'] == 'Let' and s['init'] is not None:
                            q = unwrap_pat(s['pat'])
                            if q['k'] == 'Binding' and q['var'] not in vd:
                                d = seq_dom(s['init'])
                                if d is not None: vd[q['var']] = d; changed = True
                            if q['k'] == 'Binding' and q['var'] not in idom:
                                i0 = strip(s['init'])
                                if i0['k'] == 'Call' and (callee_name(i0) or '') in ('core::slice::<impl [T]>::len', 'std::vec::Vec::len'):
                                    d = seq_dom(i0['args'][0])
                                    if d is not None: idom[q['var']] = d + 1; changed = True
                                if i0['k'] == 'Call' and callee_name(i0) == PF + 'to_free_index' and not q.get('mutable'):
                                    idom[q['var']] = 0; changed = True
                if e['k'] == 'Match':
                    sc = strip(e['scrutinee'])
                    # for (i, x) in seq.iter().enumerate()
                    if sc['k'] == 'Call' and callee_decl(sc) == 'std::iter::Iterator::next':
                        pass
            for e in walk(t['body']):
                if e['k'] == 'Match' and strip(e['scrutinee'])['k'] == 'Call' and callee_decl(strip(e['scrutinee'])) == 'std::iter::IntoIterator::into_iter':
                    it = strip(strip(e['scrutinee'])['args'][0])
                    if it['k'] == 'Call' and callee_decl(it) == 'std::iter::Iterator::enumerate':
                        d = seq_dom(it['args'][0])
                        if d is None: continue
                        for m in walk(e):
                            if m['k'] == 'Match':
                                for a in m['arms']:
                                    p = unwrap_pat(a['pat'])
                                    if p['k'] == 'Variant' and p['variant'] == 'Some' and p['subs']:
                                        tp = unwrap_pat(p['subs'][0]['pat'])
                                        if tp['k'] == 'Leaf' and tp['subs']:
                                            iv = unwrap_pat(tp['subs'][0]['pat'])
                                            if iv['k'] == 'Binding' and iv['var'] not in idom:
                                                idom[iv['var']] = d; changed = True
        def idx_bound(e):
            e = strip(e)
            if e['k'] in ('VarRef', 'UpvarRef'): return idom.get(e['var'])
            if e['k'] == 'Call' and callee_name(e) == PF + 'to_free_index': return 0
            if e['k'] == 'Call' and (callee_name(e) or '') in ('core::slice::<impl [T]>::len', 'std::vec::Vec::len'):
                d = seq_dom(e['args'][0])               # `widths[labels.len()]`: the length of a sequence, used as an index directly
                return d + 1 if d is not None else None
            return None
        n = 0
        for e in walk(t['body']):
            base = ix = None
            if e['k'] == 'Index': base, ix = e['lhs'], e['index']
            elif e['k'] == 'Call' and (callee_decl(e) or '') in ('std::ops::Index::index', 'std::ops::IndexMut::index_mut'): base, ix = e['args'][0], e['args'][1]
            if base is None: continue
            n += 1
            sd = seq_dom(base); ib = idx_bound(ix)
            ok = sd is not None and ib is not None and ib <= sd
            R.count('X3:index-sites'); R.obligation(ok, 'X3 %s #%d' % (fn, n))
            if not ok:
                R.violation('%s / X3 / index #%d' % (fn, n), 'X3',
                            'index %s into %s: %s' % (pp(ix)[:40], pp(base)[:40], 'cannot establish the domains (fail closed)' if sd is None or ib is None else
                                                       'index ranges up to |free_vars|+%d but the sequence has |free_vars|+%d entries' % (ib, sd)), e['loc'])
        # calls onward
        for e in walk(t['body']):
            if e['k'] == 'Call' and callee_name(e) in ('rsbdd::print_sized_line',) and depth < 2:
                sub = {}
                for i, a in enumerate(e['args']):
                    d = seq_dom(a)
                    if d is not None: sub[i] = d
                check_fn(callee_name(e), sub, depth + 1)
            if e['k'] == 'Call' and callee_name(e) == fn:
                for i, a in enumerate(e['args']):
                    d = seq_dom(a)
                    if i in pd and d is not None and d != pd[i]:
                        R.violation('%s / X3 / recursive call changes a sequence length' % fn, 'X3', 'argument %d has |free_vars|+%d entries, parameter expects +%d' % (i, d, pd[i]), e['loc'])
    for fn in ('rsbdd::print_truth_table_recursive', 'rsbdd::print_true_vars_recursive'):
        pd = {}
        for (f, i), ds in pdom.items():
            if f == fn:
                if len(ds) != 1:
                    R.violation('%s / X3 / inconsistent call sites' % fn, 'X3', 'parameter %d receives sequences of different lengths' % i)
                pd[i] = sorted(ds)[0]
        if not pd:
            R.violation('%s / X3 / no call from main' % fn, 'UNDECIDABLE', 'cannot determine the sequence domains passed to %s' % fn)
        check_fn(fn, pd)

def table_write_domain(lib, tbl):
    """how a ParsedFormula table is filled: 'position in vars' if pushed once per element of vars, 'id' if assigned at [v.id]"""
    t = lib.ithir.get('rsbdd::parser::ParsedFormula::new_with_env')
    if t is None or tbl is None: return 'unknown'
    for e in walk(t['body']):
        if e['k'] == 'Call' and callee_name(e) == 'std::vec::Vec::push' and strip(e['args'][0]).get('field_name') == tbl:
            return 'position in vars'
        if e['k'] == 'Assign':
            l = strip(e['lhs'])
            b = ix = None
            if l['k'] == 'Index': b, ix = strip(l['lhs']), strip(l['index'])
            elif l['k'] == 'Call' and (callee_decl(l) or '').startswith('std::ops::IndexMut'): b, ix = strip(l['args'][0]), strip(l['args'][1])
            if b is not None and b.get('field_name') == tbl and ix.get('field_name') == 'id': return 'id'
    return 'unknown'

def free_vars_by_chain(lib, t, PF):
    """free_vars filled by an iterator chain instead of a loop: the elements of `vars`, in order, kept exactly when var_is_free(whole
    formula, v) holds - `vars.iter().filter(|v| var_is_free(..)).cloned().collect()`, or through a vector of flags computed by
    `vars.iter().map(|v| var_is_free(..)).collect()` and zipped back on"""
    def closure(e):
        e = strip(e)
        return lib.ithir.get(canon(e['def'])) if e['k'] == 'Closure' else None
    def is_free_call(body, pvar):
        b = body
        while b['k'] in ('Use', 'NeverToAny', 'Borrow', 'Deref') or (b['k'] == 'Block' and not b['stmts'] and b.get('expr') is not None): b = b.get('source') or b.get('arg') or b.get('expr')
        return b['k'] == 'Call' and callee_name(b) == PF + 'var_is_free' and strip(b['args'][1]).get('field_name') == 'bdd' and root_var(b['args'][2]) == pvar
    flags = set()
    for blk in walk(t['body']):
        if blk['k'] != 'Block': continue
        for st in blk['stmts']:
            if st['k'] == 'Let' and st.get('init') is not None and unwrap_pat(st['pat'])['k'] == 'Binding':
                i0 = strip(st['init'])
                if i0['k'] == 'Call' and callee_decl(i0) == 'std::iter::Iterator::collect':
                    m = strip(i0['args'][0])
                    if m['k'] == 'Call' and callee_decl(m) == 'std::iter::Iterator::map' and len(m['args']) == 2:
                        ct = closure(m['args'][1]); src = strip(m['args'][0])
                        while src['k'] == 'Call' and src['args'] and (callee_name(src) or '').split('::')[-1] in ('iter', 'into_iter', 'deref'): src = strip(src['args'][0])
                        if ct is not None and len(ct['params']) == 2 and src['k'] == 'Field' and src.get('field_name') == 'vars' and is_free_call(ct['body'], unwrap_pat(ct['params'][1]['pat']).get('var')):
                            flags.add(unwrap_pat(st['pat'])['var'])
    class Bad(Exception): pass
    def apply(ct, el):
        env = {}
        def bind(p, v):
            p = unwrap_pat(p)
            if p['k'] == 'Binding': env[p['var']] = v
            elif p['k'] == 'Leaf' and 'adt' not in p and v[0] == 'pair':
                for sp in p['subs']: bind(sp['pat'], v[1 + sp['field']])
            elif p['k'] != 'Wild': raise Bad()
        bind(ct['params'][1]['pat'], el)
        b = ct['body']
        while b['k'] in ('Use', 'NeverToAny', 'Borrow', 'Deref') or (b['k'] == 'Block' and not b['stmts'] and b.get('expr') is not None) or \
                (b['k'] == 'Call' and (callee_decl(b) or '') in ('std::clone::Clone::clone', 'std::ops::Deref::deref') and b['args']):
            b = b.get('source') or b.get('arg') or b.get('expr') or b['args'][0]
        if b['k'] in ('VarRef', 'UpvarRef') and b['var'] in env: return env[b['var']]
        if b['k'] == 'Field' and strip(b['lhs'])['k'] in ('VarRef', 'UpvarRef') and env.get(strip(b['lhs'])['var'], ('',))[0] == 'pair': return env[strip(b['lhs'])['var']][1 + b['field']]
        pv = unwrap_pat(ct['params'][1]['pat'])
        if pv['k'] == 'Binding' and el == ('v',) and is_free_call(ct['body'], pv['var']): return ('flag',)
        raise Bad()
    filtered = [0]
    def elems(e):
        e = strip(e)
        if e['k'] == 'Call':
            d = callee_decl(e) or ''; c = (callee_name(e) or '').split('::')[-1]
            if d in ('std::iter::Iterator::collect', 'std::iter::Iterator::cloned', 'std::iter::Iterator::copied', 'std::ops::Deref::deref', 'std::iter::IntoIterator::into_iter') or c in ('iter', 'into_iter'): return elems(e['args'][0])
            if d == 'std::iter::Iterator::zip': return ('pair', elems(e['args'][0]), elems(e['args'][1]))
            if d == 'std::iter::Iterator::filter':
                el = elems(e['args'][0]); ct = closure(e['args'][1])
                if ct is None or apply(ct, el) != ('flag',): raise Bad()
                filtered[0] += 1
                return el
            if d == 'std::iter::Iterator::map':
                ct = closure(e['args'][1])
                if ct is None: raise Bad()
                return apply(ct, elems(e['args'][0]))
            raise Bad()
        if e['k'] == 'Field' and e.get('field_name') == 'vars': return ('v',)
        if e['k'] in ('VarRef', 'UpvarRef') and e['var'] in flags: return ('flag',)
        raise Bad()
    for e in walk(t['body']):
        if e['k'] == 'Assign' and strip(e['lhs'])['k'] == 'Field' and strip(e['lhs']).get('field_name') == 'free_vars':
            filtered[0] = 0
            try:
                if elems(e['rhs']) == ('v',) and filtered[0] == 1: return True
            except Bad: pass
    return False

# ------------------------------------------------------------------------------------------------ X4 data flow in main
def rule_X4(F, R, clauses=('parse', 'order', 'model', 'retain', 'export', 'vars')):
    binc, lib = F.bin(), F.lib()
    main = binc.ithir.get('rsbdd::main')
    if main is None:
        R.violation('rsbdd::main / X4 / anchor', 'UNDECIDABLE', 'main not found'); return
    PF = 'rsbdd::parser::ParsedFormula::'
    body = main['body']
    stmts = stmts_in_order(body)
    def calls_in(e, name): return [x for x in walk(e) if x['k'] == 'Call' and callee_name(x) == name]
    # position of interesting statements
    pos = {}
    for i, s in enumerate(stmts):
        e = s['init'] if s['k'] == 'Let' else s['expr']
        if e is None: continue
        for nm, key in ((PF + 'new', 'parse'), (PF + 'eval', 'eval'), ('rsbdd::bdd::BDDEnv::model', 'model'), ('rsbdd::bdd::BDDEnv::retain_choice_bottom_up', 'retain'),
                        ('rsbdd::print_truth_table_recursive', 'table'), ('rsbdd::print_true_vars_recursive', 'vars'), ('rsbdd::bdd_io::BDDGraph::new', 'dot')):
            if calls_in(e, nm): pos.setdefault(key, []).append(i)
    if 'parse' in clauses:
        n_new = sum(len(calls_in(t['body'], PF + 'new')) + len(calls_in(t['body'], PF + 'new_with_env')) for n_, t in binc.ithir.items())
        ok = n_new == 1 and len(pos.get('parse', [])) == 1
        R.count('X4:parse-call-sites', n_new); R.obligation(ok, 'X4 single parse')
        if not ok: R.violation('rsbdd::main / X4 / single parse path', 'X4', 'the CLI must parse the formula at exactly one call site fed by all three input channels; found %d' % n_new)
        # the reader argument is one variable initialised by a three-way choice (evaluate / file / stdin)
        if ok:
            call = calls_in(body, PF + 'new')[0]
            rv = root_var(call['args'][0])
            init = None
            for s in stmts:
                if s['k'] == 'Let' and unwrap_pat(s['pat']).get('var') == rv: init = s['init']
            chans = set()
            if init is not None:
                import facts as _facts
                todo_ = [init]; seen_ = set()
                allx = []
                while todo_:
                    ex_ = todo_.pop()
                    for x in walk(ex_):
                        allx.append(x)
                        if x['k'] == 'Call':
                            g_ = callee_name(x)
                            if g_ and g_ in binc.ithir and g_ not in _facts.baseline_fns() and g_ not in seen_:
                                seen_.add(g_); todo_.append(binc.ithir[g_]['body'])        # a new helper that opens the reader: look inside
                        if x['k'] == 'Closure' and canon(x['def']) in binc.ithir and canon(x['def']) not in seen_:
                            seen_.add(canon(x['def'])); todo_.append(binc.ithir[canon(x['def'])]['body'])
                for x in allx:
                    if x['k'] == 'Call':
                        c = callee_name(x) or ''
                        if c == 'std::io::stdin': chans.add('stdin')
                        if c == 'std::fs::File::open': chans.add('file')
                        if c in ('core::str::<impl str>::as_bytes', 'std::string::String::as_bytes'): chans.add('evaluate')
            ok = chans == {'stdin', 'file', 'evaluate'}
            R.count('X4:input-channels', len(chans)); R.obligation(ok, 'X4 channels')
            if not ok: R.violation('rsbdd::main / X4 / input channels', 'X4', 'the single parser call is fed by %s, expected --evaluate, FILE and stdin' % sorted(chans))
            # where value provenance can follow the reader completely, each channel must hand the parser its whole, unchanged content:
            # a decision tree over the two options whose leaves are as_bytes(<--evaluate text>), open(<FILE>) and stdin() - nothing wrapped around them
            if ok:
                import flow
                fl = flow.Flow(binc)
                found = []
                flow.scan(fl, body, {}, lambda x: x.get('k') == 'Call' and callee_name(x) == PF + 'new', found)
                term = fl.ev(found[0][0]['args'][0], found[0][1]) if len(found) == 1 else ('unknown', 'parser call')
                def has_unknown(t_): return isinstance(t_, tuple) and (t_[:1] == ('unknown',) or any(has_unknown(y) for y in t_))
                leaves = []
                def tree(t_, known):
                    if t_[0] == 'optcase' and t_[1][0] == 'field' and t_[1][1] == ('args',):
                        tree(t_[3], dict(known, **{t_[1][2]: t_[2]})); tree(t_[4], dict(known, **{t_[1][2]: None}))
                    else: leaves.append((t_, known))
                if not has_unknown(term):
                    tree(term, {})
                    bad = None
                    for lf, known in leaves:
                        while lf[0] == 'call' and lf[1] in ('std::io::Stdin::lock',) and lf[2]: lf = lf[2][0]
                        good = (lf == ('call', 'std::io::stdin', ())) and known.get('evaluate', None) is None and known.get('input', None) is None and set(known) == {'evaluate', 'input'} \
                            or (lf[0] == 'call' and lf[1] in ('std::string::String::as_bytes', 'core::str::<impl str>::as_bytes') and known.get('evaluate') is not None and lf[2] == (known['evaluate'],)) \
                            or (lf[0] == 'call' and lf[1] == 'std::fs::File::open' and known.get('input') is not None and lf[2] == (known['input'],))
                        if not good: bad = bad or lf
                    okp = bad is None and len(leaves) == 3
                    R.count('X4:input-channel-leaves', len(leaves)); R.obligation(okp, 'X4 channel contents')
                    if not okp: R.violation('rsbdd::main / X4 / input channel contents', 'X4', 'every input channel must hand the parser its whole content unchanged (as_bytes of the --evaluate text, the opened FILE, stdin); found %s' % flow.show(bad if bad is not None else term)[:160])
    if 'order' in clauses:
        # value provenance of the parser's ordering argument, whatever the code layout (if-let, Option::map, helper function):
        #   args.ordering.map(p => extract_vars(tokenize(open(p), None)))
        import flow
        fl = flow.Flow(binc)
        found = []
        flow.scan(fl, body, {}, lambda x: x.get('k') == 'Call' and callee_name(x) == PF + 'new', found)
        ok = False; got = None
        if len(found) == 1:
            node, env = found[0]
            got = fl.ev(node['args'][1], env)
            want = ('optmap', ('field', ('args',), 'ordering'), ('bound', 0),
                    ('call', PF + 'extract_vars', (('call', 'rsbdd::parser::SymbolicBDD::tokenize', (('call', 'std::fs::File::open', (('bound', 0),)), ('none',))),)))
            ok = flow.alpha_eq(got, want)
        if ok:
            # ... and the library hands the ordering it is given to the tokenizer unchanged (ParsedFormula::new -> new_with_env -> tokenize)
            for fn_, callee_, argi in ((PF + 'new', PF + 'new_with_env', 2), (PF + 'new_with_env', 'rsbdd::parser::SymbolicBDD::tokenize', 1)):
                tl = lib.ithir.get(fn_)
                if tl is None: ok = False; got = ('unknown', fn_ + ' not found'); break
                pv = None
                for p_ in tl['params']:
                    if 'pat' in p_ and 'Option' in (p_['ty'].get('s') or '') and 'NamedSymbol' in (p_['ty'].get('s') or ''): pv = unwrap_pat(p_['pat']).get('var')
                fl2 = flow.Flow(lib)
                found2 = []
                flow.scan(fl2, tl['body'], {}, lambda x, c_=callee_: x.get('k') == 'Call' and callee_name(x) == c_, found2)
                if len(found2) != 1 or pv is None: ok = False; got = ('unknown', '%d call(s) of %s in %s' % (len(found2), callee_.split('::')[-1], fn_.split('::')[-1])); break
                g2 = fl2.ev(found2[0][0]['args'][argi], found2[0][1])
                if g2 != ('param', pv): ok = False; got = ('call', fn_.split('::')[-1] + ' passes', (g2,)); break
        R.count('X4:ordering-flow'); R.obligation(ok, 'X4 order')
        if not ok: R.violation('rsbdd::main / X4 / ordering flow', 'X4', 'the ordering argument of the parser must be the variables of the -o file in order of first appearance, '
                               'args.ordering.map(p => extract_vars(tokenize(open(p), None))); found %s' % (flow.show(got) if got is not None else '%d parser call(s)' % len(found)))
    if 'model' in clauses or 'retain' in clauses:
        # the value every printer shows, as a term over the evaluation result, whatever the layout (`if flag { r = f(r) }`,
        # `let r = if flag { f(r) } else { r }`, a shadowing chain of variables):
        #     ite(--model, model(X), X)   with   X = ite(retain-choices is Any, E, retain(E))   and   E = the evaluated formula
        NAMES = {'rsbdd::bdd::BDDEnv::model': 'model', 'rsbdd::bdd::BDDEnv::retain_choice_bottom_up': 'retain', PF + 'eval': 'eval'}
        PRINTERS = {'rsbdd::print_truth_table_recursive': 'table', 'rsbdd::print_true_vars_recursive': 'vars', 'rsbdd::bdd_io::BDDGraph::new': 'dot'}
        shown = []
        def condkey(c):
            c = strip(c); neg = False
            while c['k'] == 'Unary' and c['op'] == 'Not': c = strip(c['arg']); neg = not neg
            if c['k'] == 'Call' and callee_name(c) == 'rsbdd::truth_table::TruthTableEntry::is_any' and strip(c['args'][0]).get('field_name') == 'retain_choices' \
                    and root_var(strip(c['args'][0])['lhs']) is not None: return ('retain is any', neg)
            if c['k'] == 'Field' and c.get('field_name') == 'model' and root_var(c['lhs']) is not None: return ('model', neg)
            return ('other', pp(c))
        def ite(ck, a, b_):
            if a == b_: return a
            if len(ck) == 2 and ck[1] is True: return ('ite', (ck[0], False), b_, a)
            return ('ite', ck, a, b_)
        def tv(e, val):
            e = strip(e)
            while e['k'] in ('Use', 'NeverToAny'): e = strip(e['source'])
            if e['k'] in ('VarRef', 'UpvarRef'): return val.get(e['var'], ('var', e['var']))
            if e['k'] == 'Closure': return ('closure', canon(e['def']))
            if e['k'] == 'Call':
                n = callee_name(e)
                if callee_decl(e) in ('std::ops::Fn::call', 'std::ops::FnMut::call_mut', 'std::ops::FnOnce::call_once') and len(e['args']) == 2 \
                        and strip(e['args'][1])['k'] == 'Tuple' and not strip(e['args'][1])['fields']:
                    # `computation()` with a local closure that takes nothing (handed to an inlined helper such as `timed(|| parsed.eval())`): its body, here
                    f_ = tv(e['args'][0], val)
                    ct_ = binc.ithir.get(f_[1]) if f_[0] == 'closure' else None
                    if ct_ is not None and len(ct_['params']) == 1: return tv(ct_['body'], val)
                    return ('opaque', pp(e)[:60])
                if n in NAMES:
                    return ('eval',) if NAMES[n] == 'eval' else (NAMES[n], tv(e['args'][1], val))
                if n in ('std::option::Option::unwrap_or_default', 'std::option::Option::unwrap', 'std::option::Option::expect', 'std::option::Option::unwrap_or',
                         'std::option::Option::unwrap_or_else') and e['args']:
                    inner = tv(e['args'][0], val)          # the latest result kept in an Option (`last = Some(r)` in the loop, resolved after it)
                    return inner[1] if inner[0] == 'some' else ('opaque', pp(e)[:60])
                if root_var(e) is not None and e['args']: return tv(e['args'][0], val)          # clone / as_ref / deref of a value
            if e['k'] == 'If' and e.get('else') is not None:
                return ite(condkey(e['cond']), tv(e['then'], val), tv(e['else'], val))
            if e['k'] == 'Block':
                v2 = dict(val); run(e['stmts'], v2)
                return tv(e['expr'], v2) if e.get('expr') is not None else ('unit',)
            if e['k'] == 'Tuple': return ('tuple',) + tuple(tv(f_, val) for f_ in e['fields'])
            if e['k'] == 'Match' and 'TryDesugar' in str(e.get('source')):
                sc = strip(e['scrutinee'])
                if sc['k'] == 'Call' and sc['args']: return tv(sc['args'][0], val)
            if e['k'] == 'Adt' and canon(e['adt']) == 'std::result::Result' and e['variant'] == 'Ok' and e['fields']: return tv(e['fields'][0]['expr'], val)
            if e['k'] == 'Adt' and canon(e['adt']) == 'std::option::Option' and e['variant'] == 'Some' and e['fields']: return ('some', tv(e['fields'][0]['expr'], val))
            return ('opaque', pp(e)[:60])
        def bindpat(pat, v_, val):
            q = unwrap_pat(pat)
            if q['k'] == 'Binding': val[q['var']] = v_
            elif q['k'] == 'Leaf' and 'adt' not in q:
                for sp in q['subs']:
                    bindpat(sp['pat'], v_[1 + sp['field']] if v_[0] == 'tuple' and 1 + sp['field'] < len(v_) else ('opaque', 'component'), val)
        def merge(val, ck, v1, v2):
            for k_ in set(v1) | set(v2):
                if k_ in val or (k_ in v1 and k_ in v2):
                    a_, b_ = v1.get(k_, val.get(k_)), v2.get(k_, val.get(k_))
                    if a_ != val.get(k_) or b_ != val.get(k_): val[k_] = ite(ck, a_, b_)
        def run_expr(e, val):
            e0 = e
            while e['k'] in ('Use', 'NeverToAny', 'Scope'): e = e['source'] if 'source' in e else e['value']
            if e['k'] == 'Block':
                run(e['stmts'], val)
                if e.get('expr') is not None: run_expr(e['expr'], val)
                return
            if e['k'] == 'Assign' and strip(e['lhs'])['k'] in ('VarRef', 'UpvarRef'):
                note(e['rhs'], val)
                val[strip(e['lhs'])['var']] = tv(e['rhs'], val); return
            if e['k'] == 'If':
                note(e['cond'], val)
                v1 = dict(val); run_expr(e['then'], v1)
                v2 = dict(val)
                if e.get('else') is not None: run_expr(e['else'], v2)
                def leaves_(b_):
                    if b_ is None: return False
                    for _ in range(8):
                        if b_['k'] in ('Use', 'NeverToAny', 'Scope'): b_ = b_['source'] if 'source' in b_ else b_['value']
                        elif b_['k'] == 'Block' and not b_['stmts'] and b_.get('expr') is not None: b_ = b_['expr']
                        elif b_['k'] == 'Block' and len(b_['stmts']) == 1 and b_.get('expr') is None and b_['stmts'][0]['k'] == 'Expr': b_ = b_['stmts'][0]['expr']
                        else: break
                    return b_['k'] in ('Break', 'Return', 'Continue')
                if leaves_(e.get('else')): val.clear(); val.update(v1); return          # `while c { .. }` = loop { if c { .. } else { break } }: what flows on is the body
                if leaves_(e['then']): val.clear(); val.update(v2); return
                merge(val, condkey(e['cond']), v1, v2); return
            if e['k'] == 'Match' and e.get('source') in (None, 'Normal') and strip(e['scrutinee'])['k'] == 'Field' and strip(e['scrutinee']).get('field_name') == 'retain_choices' \
                    and root_var(strip(e['scrutinee'])['lhs']) is not None:
                # `match args.retain_choices { Any => {}, kept @ (True | False) => { r = retain(r, kept) } }`: the test `is Any` as a match
                def variants_of(p_):
                    p_ = unwrap_pat(p_)
                    if p_['k'] == 'Or': return set().union(*[variants_of(q_) for q_ in p_['pats']])
                    if p_['k'] == 'Binding' and p_.get('sub'): return variants_of(p_['sub'])
                    if p_['k'] in ('Wild', 'Binding'): return {'True', 'False', 'Any'}
                    if p_['k'] == 'Variant' and canon(p_.get('adt', '')) == TTE: return {p_['variant']}
                    return set()
                taken = set(); per = {}
                for a_ in e['arms']:
                    vs_ = variants_of(a_['pat']) - taken
                    taken |= vs_
                    if a_.get('guard') is not None or not vs_: continue
                    v1 = dict(val); run_expr(a_['body'], v1)
                    for x_ in vs_: per[x_] = v1
                if set(per) == {'True', 'False', 'Any'} and all(per['True'].get(k_) == per['False'].get(k_) for k_ in set(per['True']) | set(per['False'])):
                    merge(val, ('retain is any', False), per['Any'], per['True']); return
            if e['k'] == 'Match':
                note(e['scrutinee'], val)
                outs = []
                def leaves(b_):
                    while b_['k'] in ('Use', 'NeverToAny', 'Scope') or (b_['k'] == 'Block' and not b_['stmts'] and b_.get('expr') is not None):
                        b_ = b_['expr'] if b_['k'] == 'Block' else (b_['source'] if 'source' in b_ else b_['value'])
                    return b_['k'] in ('Break', 'Return', 'Continue')
                for a_ in e['arms']:
                    if leaves(a_['body']): continue              # `None => break`: nothing flows on from this arm
                    v1 = dict(val); run_expr(a_['body'], v1); outs.append(v1)
                for k_ in list(val):
                    vs = [o[k_] for o in outs if o.get(k_) != val[k_]]
                    if vs: val[k_] = vs[0] if all(x == vs[0] for x in vs) and len(vs) == len(outs) else ('phi', tuple(sorted(set(map(repr, vs + [val[k_]])))))
                return
            if e['k'] == 'Loop':
                # a loop that runs at least once leaves what its body assigns (the benchmark loop; C12's R9 decides the `at least once`)
                v1 = dict(val); run_expr(e['body'], v1)
                for k_ in list(val):
                    if v1.get(k_) != val[k_]: val[k_] = v1[k_]
                return
            note(e, val)
        def note(e, val):
            for x in walk(e):
                if x['k'] == 'Call' and callee_name(x) in PRINTERS:
                    pt_ = binc.ithir.get(callee_name(x))
                    shown.append((PRINTERS[callee_name(x)], x, tv(x['args'][role_index(pt_, 'root') if pt_ is not None else 0], val)))
        def run(stmts_, val):
            for s_ in stmts_:
                if s_['k'] == 'Let':
                    if s_.get('init') is None: continue
                    note(s_['init'], val)
                    # `let graph = BDDGraph::new(&result, ..)` and friends are noted above; the binding itself only matters for BDD values
                    bindpat(s_['pat'], tv(s_['init'], val), val)
                else:
                    run_expr(s_['expr'], val)
        # every row starts from the assignment `all Any`: the values handed to the two recursive printers are built from the constant Any only
        for x_ in walk(body):
            if x_['k'] == 'Call' and callee_name(x_) in ('rsbdd::print_truth_table_recursive', 'rsbdd::print_true_vars_recursive'):
                pt_ = binc.ithir.get(callee_name(x_))
                vi_ = role_index(pt_, 'values') if pt_ is not None else 1
                arg_ = x_['args'][vi_] if vi_ < len(x_['args']) else None
                consts_ = set()
                if arg_ is not None:
                    nodes_ = list(walk(arg_))
                    for y_ in list(nodes_):
                        if y_['k'] == 'Closure' and canon(y_['def']) in binc.ithir: nodes_.extend(walk(binc.ithir[canon(y_['def'])]['body']))
                    rv_ = root_var(arg_)
                    if rv_ is not None:
                        for b2_ in walk(body):
                            if b2_['k'] == 'Block':
                                for st2_ in b2_['stmts']:
                                    if st2_['k'] == 'Let' and st2_.get('init') is not None and unwrap_pat(st2_['pat']).get('var') == rv_:
                                        nodes_.extend(walk(st2_['init']))
                                        for y_ in list(walk(st2_['init'])):
                                            if y_['k'] == 'Closure' and canon(y_['def']) in binc.ithir: nodes_.extend(walk(binc.ithir[canon(y_['def'])]['body']))
                    consts_ = set(y_['variant'] for y_ in nodes_ if y_['k'] == 'Adt' and canon(y_['adt']) == TTE)
                oki_ = consts_ == {'Any'}
                R.count('X4:initial-assignment'); R.obligation(oki_, 'X4 initial assignment %s' % x_.get('loc'))
                if not oki_: R.violation('rsbdd::main / X4 / initial assignment', 'X4', 'the printers must start from the assignment in which every free variable is Any; the values handed over are built from %s' % (sorted(consts_) or 'no constant'), x_.get('loc'))
        b0 = body
        while b0['k'] in ('Use', 'NeverToAny'): b0 = b0['source']
        val0 = {}
        if b0['k'] == 'Block':
            run(b0['stmts'], val0)
            if b0.get('expr') is not None: run_expr(b0['expr'], val0)
        E = ('eval',)
        X = ('ite', ('retain is any', False), E, ('retain', E))
        def contains(t_, what):
            return t_ == what or (isinstance(t_, tuple) and any(contains(y, what) for y in t_))
        def showterm(t_):
            if t_ == E: return 'E'
            if t_[0] in ('model', 'retain'): return '%s(%s)' % (t_[0], showterm(t_[1]))
            if t_[0] == 'ite': return 'if %s%s { %s } else { %s }' % ('' if not (len(t_[1]) == 2 and t_[1][1] is True) else 'not ', t_[1][0] if t_[1][0] != 'other' else t_[1][1], showterm(t_[2]), showterm(t_[3]))
            return str(t_[0])
        kinds = {k_ for k_, _, _ in shown}
        for key, fnn, flag in (('model', 'rsbdd::bdd::BDDEnv::model', 'model'), ('retain', 'rsbdd::bdd::BDDEnv::retain_choice_bottom_up', 'retain_choices')):
            if key not in clauses: continue
            n_sites = sum(len(calls_in(t_['body'], fnn)) for t_ in binc.ithir.values())
            ok = n_sites == 1 and kinds == {'table', 'vars', 'dot'}
            bad = None
            for k_, call_, term in shown:
                if key == 'model':
                    good = term[0] == 'ite' and term[1] == ('model', False) and term[2] == ('model', term[3]) and contains(term[3], E) and not contains(term[3], 'model')
                else:
                    inner = term[3] if term[0] == 'ite' and term[1] == ('model', False) and term[2] == ('model', term[3]) else term
                    good = inner == X
                if not good: ok = False; bad = bad or (k_, call_, term)
            R.count('X4:%s-before-printing' % key); R.obligation(ok, 'X4 ' + key)
            if not ok:
                R.violation('rsbdd::main / X4 / %s before printing' % key, 'X4', 'with --%s the result must be replaced by %s(result) after evaluation and before every printer%s' % (
                    flag.replace('_', '-'), fnn.split('::')[-1], ('; the %s printer shows %s' % (bad[0], showterm(bad[2]))) if bad else '; %d call site(s), printers %s' % (n_sites, sorted(kinds))), bad[1]['loc'] if bad else None)
        if 'retain' in clauses:
            # retain is skipped exactly when the filter is Any: part of the term X above; reported separately for the message
            ok = bool(shown) and all(contains(t_, X) for _, _, t_ in shown)
            R.obligation(ok, 'X4 retain cond')
            if not ok: R.violation('rsbdd::main / X4 / retain condition', 'X4', 'retain_choice_bottom_up must be applied exactly when --retain-choices is not Any')
    # option arguments: which command-line option reaches which parameter (value provenance, independent of code layout)
    optargs = [('retain', 'retainarg', 'rsbdd::bdd::BDDEnv::retain_choice_bottom_up', 2, 'retain_choices', '--retain-choices'),
               ('tablefilter', 'tablefilter', 'rsbdd::print_truth_table_recursive', 2, 'filter', '--filter'),
               ('dotfilter', 'dotfilter', 'rsbdd::bdd_io::BDDGraph::new', 1, 'filter', '--filter')]
    if any(cl in clauses for cl, *_ in optargs):
        import flow
        fl = flow.Flow(binc)
        for cl, key, fnn, argi, field, opt in optargs:
            if cl not in clauses: continue
            found = []
            flow.scan(fl, body, {}, lambda x, fnn=fnn: x.get('k') == 'Call' and callee_name(x) == fnn, found)
            ok = len(found) == 1
            got = None
            if ok:
                node, env = found[0]
                got = fl.ev(node['args'][argi], env)
                ok = got == ('field', ('args',), field)
            R.count('X4:option-argument-%s' % key); R.obligation(ok, 'X4 optarg ' + key)
            if not ok: R.violation('rsbdd::main / X4 / %s argument of %s' % (opt, fnn.split('::')[-1]), 'X4',
                                   'the value of %s must reach %s unchanged (found %s)' % (opt, fnn.split('::')[-1], flow.show(got) if got is not None else '%d call(s)' % len(found)))
    if 'tablefilter' in clauses:
        # the recursive descent of the table printer hands its filter (and formula, widths) down unchanged
        fn = 'rsbdd::print_truth_table_recursive'
        pt = binc.ithir.get(fn)
        ok = pt is not None
        if ok:
            import flow
            fl = flow.Flow(binc)
            pvars = [unwrap_pat(p['pat']).get('var') if 'pat' in p else None for p in pt['params']]
            found = []
            flow.scan(fl, pt['body'], {}, lambda x: x.get('k') == 'Call' and callee_name(x) == fn, found)
            ok = len(found) >= 1
            for node, env in found:
                for i in (2, 3, 4):
                    if i < len(pvars) and fl.ev(node['args'][i], env) != ('param', pvars[i]): ok = False
        R.count('X4:table-recursion-passes-filter'); R.obligation(ok, 'X4 table recursion')
        if not ok: R.violation('rsbdd::print_truth_table_recursive / X4 / recursive calls', 'X4', 'the recursive calls of the table printer must pass the filter, the formula and the widths on unchanged')
    if 'export' in clauses:
        ok = False
        for e in walk(body):
            if e['k'] == 'If' and 'export_ordering' in [x.get('field_name') for x in walk(e['cond']) if x['k'] == 'Field']:
                sorts = [x for x in walk(e['then']) if x['k'] == 'Call' and 'sort' in (callee_name(x) or '').split('::')[-1]]
                src = [x for x in walk(e['then']) if x['k'] == 'Field' and x.get('field_name') == 'vars']
                prints = calls_in(e['then'], 'std::io::_print')
                okc = len(sorts) == 1 and sorts_ascending_by_id(sorts[0], binc)
                ok = okc and bool(src) and bool(prints)
                # ... one name per line: each name is written with a line end after it (names run together cannot be read back as an ordering)
                if ok:
                    import engine_u as _eu
                    for pr_ in prints:
                        tm_ = [y for y in walk(pr_) if y['k'] == 'Literal' and y.get('lit') == 'ByteStr']
                        if tm_:
                            try: txt_ = _eu.decode_template(tm_[0]['value'])
                            except Exception: txt_ = None
                            if txt_ is not None and '{}' in txt_ and not txt_.endswith(('\n', ' ', '\t')): ok = False
        R.count('X4:export-ordering'); R.obligation(ok, 'X4 export')
        if not ok: R.violation('rsbdd::main / X4 / -r', 'X4', '-r must print input_parsed.vars sorted ascending by id')
    if 'vars' in clauses:
        # ParsedFormula.vars = extract_vars(tokens) sorted by id; extract_vars = Var tokens, unique
        t = lib.ithir.get(PF + 'extract_vars')
        ok = False
        if t:
            uniq = [x for x in walk(t['body']) if x['k'] == 'Call' and callee_name(x) == 'itertools::Itertools::unique']
            fm = [x for x in walk(t['body']) if x['k'] == 'Call' and callee_decl(x) == 'std::iter::Iterator::filter_map']
            ok = len(uniq) == 1 and len(fm) == 1
            if ok:
                cl = [x for x in walk(fm[0]['args'][1]) if x['k'] == 'Closure']
                ct = lib.ithir.get(canon(cl[0]['def'])) if cl else None
                ok = False
                if ct:
                    arms = [a for m in walk(ct['body']) if m['k'] == 'Match' for a in m['arms']]
                    some_arms = [a for a in arms if any(x['k'] == 'Adt' and x['variant'] == 'Some' for x in walk(a['body']))]
                    ok = len(some_arms) == 1 and unwrap_pat(some_arms[0]['pat']).get('variant') == 'Var'
        if t and not ok:
            # `tokens.iter().filter_map(Token::as_var).unique().cloned().collect()`: the selector is a function (or closure) that returns
            # Some(payload) for a Var token and None for everything else; unique() before or after cloning
            fm = [e for e in walk(t['body']) if e['k'] == 'Call' and callee_decl(e) == 'std::iter::Iterator::filter_map' and len(e['args']) == 2]
            uq = [e for e in walk(t['body']) if e['k'] == 'Call' and callee_name(e) == 'itertools::Itertools::unique']
            other = [e for e in walk(t['body']) if e['k'] == 'Call' and (callee_name(e) or '').split('::')[-1] in ('filter', 'skip', 'take', 'rev', 'step_by', 'dedup', 'sorted', 'skip_while', 'take_while', 'unique_by', 'dedup_by')]
            if len(fm) == 1 and len(uq) == 1 and not other:
                sel = strip(fm[0]['args'][1])
                st_ = None
                if sel['k'] == 'Closure': st_ = lib.ithir.get(canon(sel['def']))
                elif sel['k'] == 'ZstLiteral' and 'fn' in sel: st_ = lib.ithir.get(canon(sel['fn'].get('res') or sel['fn']['def']))
                if st_ is not None:
                    somes = [x for x in walk(st_['body']) if x['k'] == 'Adt' and canon(x['adt']) == 'std::option::Option' and x['variant'] == 'Some']
                    varbinds = set()
                    def pv(q_):
                        q_ = unwrap_pat(q_)
                        if q_['k'] == 'Variant' and q_.get('variant') == 'Var' and 'SymbolicBDDToken' in canon(q_.get('adt', '')) and q_.get('subs'):
                            b__ = unwrap_pat(q_['subs'][0]['pat'])
                            if b__['k'] == 'Binding': varbinds.add(b__['var'])
                        for sp_ in q_.get('subs') or []: pv(sp_['pat'])
                        for sp_ in q_.get('pats') or []: pv(sp_)
                    for x in walk(st_['body']):
                        if x['k'] == 'Match':
                            for a_ in x['arms']: pv(a_['pat'])
                        if x['k'] == 'If' and x['cond']['k'] == 'Let': pv(x['cond']['pat'])
                    ok = len(somes) == 1 and len(varbinds) == 1 and root_var(somes[0]['fields'][0]['expr']) in varbinds
        if t and not ok:
            # the same as a loop: for token in tokens { if let Var(v) = token { if seen.insert(v) { out.push(v.clone()) } } }  -> out
            import engine_l as _el
            loops = _el.for_loops(t['body'])
            if len(loops) == 1:
                it, pat, lbody = loops[0]
                tokvar = unwrap_pat(pat).get('var')
                sites = _el.push_sites({'body': lbody}, lambda e: callee_name(e) == 'std::vec::Vec::push')
                if len(sites) == 1 and root_var(it) is not None:
                    call, conds = sites[0]
                    var_bind = None; seen_ok = False; extra = False
                    for (c_, pol) in conds:
                        if c_['k'] == 'Let':
                            pt = unwrap_pat(c_['pat'])
                            if pol and pt['k'] == 'Variant' and pt.get('variant') == 'Var' and root_var(c_['expr']) == tokvar and pt['subs']:
                                var_bind = unwrap_pat(pt['subs'][0]['pat']).get('var')
                            else: extra = True
                        else:
                            cc = strip(c_)
                            if pol and cc['k'] == 'Call' and (callee_name(cc) or '').split('::')[-1] == 'insert' and 'HashSet' in (callee_name(cc) or '') + cc['args'][0]['ty'].get('s', '') and root_var(cc['args'][1]) == var_bind and var_bind:
                                seen_ok = True
                            else: extra = True
                    tail = t['body']
                    while tail['k'] in ('Use', 'NeverToAny'): tail = tail['source']
                    ret = root_var(tail['expr']) if tail['k'] == 'Block' and tail.get('expr') is not None else None
                    ok = bool(var_bind) and seen_ok and not extra and root_var(call['args'][1]) == var_bind and ret == root_var(call['args'][0])
        R.count('X4:extract_vars'); R.obligation(ok, 'X4 extract_vars')
        if not ok: R.violation(PF + 'extract_vars / X4 / all variables once', 'X4', 'extract_vars must return every Var token exactly once, in order of first occurrence (filter_map on Var + unique, or a loop with a seen-set)')
        # ... and the full variable list of a formula is that list over the tokens of the text (value provenance of the `vars` field): a list
        # gathered from the parse tree can miss names that occur only as binders
        tn_ = lib.ithir.get(PF + 'new_with_env')
        okv = False; gotv = None
        if tn_ is not None:
            import flow as _flow
            fl_ = _flow.Flow(lib, max_depth=0)
            lits_ = []
            _flow.scan(fl_, tn_['body'], {}, lambda x: x.get('k') == 'Adt' and canon(x.get('adt', '')) == 'rsbdd::parser::ParsedFormula', lits_)
            for e_, env_ in lits_:
                for f_ in e_['fields']:
                    if f_['name'] == 'vars':
                        gotv = fl_.ev(f_['expr'], env_)
                        inner_ = gotv
                        while inner_[0] == 'call' and inner_[1].split('::')[-1] in ('clone', 'to_vec', 'to_owned', 'into', 'from') and len(inner_[2]) == 1: inner_ = inner_[2][0]
                        okv = inner_[0] == 'call' and inner_[1] == PF + 'extract_vars' and len(inner_[2]) == 1 and inner_[2][0][0] == 'call' and inner_[2][0][1] == 'rsbdd::parser::SymbolicBDD::tokenize'
        R.count('X4:vars-field'); R.obligation(okv, 'X4 vars field')
        if not okv:
            R.violation(PF + 'new_with_env / X4 / full variable list', 'X4', 'the `vars` field must be extract_vars(tokens of the text): every name of the text once (found %s)' % (_flow.show(gotv)[:120] if gotv is not None else 'no ParsedFormula literal'))
        t = lib.ithir.get(PF + 'new_with_env')
        ok = False
        if t:
            # free_vars.push(v.clone()) under `if var_is_free(&result, &result.bdd, v)`, v iterating result.vars
            blets = {}
            for b_ in walk(t['body']):
                if b_['k'] == 'Block':
                    for st in b_['stmts']:
                        if st['k'] == 'Let' and st.get('init') is not None and unwrap_pat(st['pat'])['k'] == 'Binding' and not unwrap_pat(st['pat']).get('mutable'): blets[unwrap_pat(st['pat'])['var']] = st['init']
            for e in walk(t['body']):
                c0 = strip(e['cond']) if e['k'] == 'If' and e['cond']['k'] != 'Let' else None
                while c0 is not None and c0['k'] == 'Unary' and c0['op'] == 'Not': c0 = strip(c0['arg'])
                if c0 is not None and c0['k'] in ('VarRef', 'UpvarRef') and c0['var'] in blets and calls_in(blets[c0['var']], PF + 'var_is_free'):
                    e = dict(e); cnd_ = strip(e['cond']); negs = 0
                    while cnd_['k'] == 'Unary' and cnd_['op'] == 'Not': cnd_ = strip(cnd_['arg']); negs += 1
                    inner_ = blets[c0['var']]
                    for _ in range(negs): inner_ = {'k': 'Unary', 'op': 'Not', 'arg': inner_, 'loc': inner_.get('loc'), 'ty': inner_.get('ty')}
                    e['cond'] = inner_
                if e['k'] == 'If' and calls_in(e['cond'], PF + 'var_is_free'):
                    c = strip(e['cond'])
                    neg = False
                    while c['k'] == 'Unary' and c['op'] == 'Not': c = strip(c['arg']); neg = not neg
                    if not (c['k'] == 'Call' and callee_name(c) == PF + 'var_is_free'):
                        ok = False; break             # the free-variable test must decide alone (`closed || var_is_free(..)` lets other variables in)
                    branch = e['else'] if neg else e['then']
                    other = e['then'] if neg else e['else']
                    pushes = [x for x in walk(branch) if x['k'] == 'Call' and callee_name(x) == 'std::vec::Vec::push' and strip(x['args'][0]).get('field_name') == 'free_vars']
                    opush = [x for x in walk(other) if x['k'] == 'Call' and callee_name(x) == 'std::vec::Vec::push' and strip(x['args'][0]).get('field_name') == 'free_vars'] if other else []
                    vf = calls_in(e['cond'], PF + 'var_is_free')[0]
                    whole = strip(vf['args'][1]).get('field_name') == 'bdd'
                    ok = len(pushes) == 1 and not opush and whole and root_var(pushes[0]['args'][1]) == root_var(vf['args'][2])
        if t and not ok:
            ok = free_vars_by_chain(lib, t, PF)
        R.count('X4:free_vars-fill'); R.obligation(ok, 'X4 free_vars')
        if not ok: R.violation(PF + 'new_with_env / X4 / free_vars', 'X4', 'free_vars must receive exactly the variables v of vars for which var_is_free(whole formula, v) holds')

# ------------------------------------------------------------------------------------------------ X5 counter invariant
def rule_X5(F, R):
    """Fresh-id counter invariant of the tokenizer, decided by symbolic execution of every registration step (one iteration of the
    loop that contains an insert into the name table), over linear integer terms:
       after the step   counter' >= inserted id + 1   and   counter' >= counter       (the counter stays above every registered id)
       a fresh id       is >= counter                                                   (so it differs from every id registered before)
    and a name is looked up in the table before a fresh id is taken for it.  The counter and the table are found by role: the mutable
    integer local initialised to 0 that is written again, and the map that receives (name, integer id) pairs."""
    from logic import Lin, And, Not, TRUE, find_counterexample
    lib = F.lib()
    fn = 'rsbdd::parser::SymbolicBDD::tokenize'
    t = lib.ithir.get(fn)
    if t is None:
        R.violation(fn + ' / X5 / anchor', 'UNDECIDABLE', 'tokenize not found'); return
    INT = ('usize', 'u64', 'u32', 'isize', 'i64', 'i32')
    # roles
    assigned = set(root_var(x['lhs']) for x in walk(t['body']) if x['k'] in ('Assign', 'AssignOp'))
    ctrs = []; fold_init = {}; collected = {}
    for blk in walk(t['body']):
        if blk['k'] != 'Block': continue
        for st in blk['stmts']:
            if st['k'] == 'Let' and st.get('init') is not None:
                q = unwrap_pat(st['pat']); i0 = strip(st['init'])
                if q['k'] == 'Binding' and q.get('mutable') and i0['k'] == 'Literal' and str(i0.get('value')) == '0' and q['var'] in assigned and st['init']['ty'].get('s') in INT: ctrs.append(q['var'])
                # `let mut counter = listed.iter().fold(0, |c, var| ..)`: the counter starts from a pass over the given ordering
                if q['k'] == 'Binding' and q.get('mutable') and i0['k'] == 'Call' and callee_decl(i0) == 'std::iter::Iterator::fold' and len(i0['args']) == 3 and st['init']['ty'].get('s') in INT \
                        and strip(i0['args'][1])['k'] == 'Literal' and str(strip(i0['args'][1]).get('value')) == '0':
                    ctrs.append(q['var']); fold_init[q['var']] = i0
                # `let mut table: HashMap<_, _> = listed.iter().map(|var| (name, var.id)).collect()`
                if q['k'] == 'Binding' and i0['k'] == 'Call' and callee_decl(i0) == 'std::iter::Iterator::collect' and 'Map' in (st['init']['ty'].get('s') or ''):
                    mp_ = strip(i0['args'][0])
                    if mp_['k'] == 'Call' and callee_decl(mp_) == 'std::iter::Iterator::map' and len(mp_['args']) == 2: collected[q['var']] = mp_
    def is_insert(x):
        return x['k'] == 'Call' and (callee_name(x) or '').endswith('Map::insert') and len(x['args']) == 3
    def entry_insert(x):
        """`table.entry(key).or_insert(v)` / `.or_insert_with(|| v)`: (table expression, 'or_insert' | 'or_insert_with', value argument)"""
        if x['k'] != 'Call' or len(x['args']) != 2: return None
        cn = callee_name(x) or ''
        if cn.split('::')[-1] not in ('or_insert', 'or_insert_with') or 'Entry' not in cn: return None
        en = strip(x['args'][0])
        if en['k'] == 'Call' and (callee_name(en) or '').endswith('Map::entry') and en['args']: return (en['args'][0], cn.split('::')[-1], x['args'][1])
        return None
    def closure_of(e):
        e = strip(e)
        return lib.ithir.get(canon(e['def'])) if e['k'] == 'Closure' else None
    def int_valued(x):
        en = entry_insert(x)
        if en is None: return False
        if en[1] == 'or_insert': return en[2]['ty'].get('s') in INT
        ct_ = closure_of(en[2])
        return ct_ is not None and ct_['body']['ty'].get('s') in INT
    inserts = [x for x in walk(t['body']) if (is_insert(x) and x['args'][2]['ty'].get('s') in INT) or int_valued(x)]
    def table_of(x):
        return root_var(x['args'][0]) if is_insert(x) else (root_var(entry_insert(x)[0]) if entry_insert(x) else None)
    tables = (set(table_of(x) for x in inserts) | set(collected)) - {None}
    if len(tables) > 1 and len(set(table_of(x) for x in inserts) - {None}) == 1: tables = set(table_of(x) for x in inserts) - {None}
    if len(ctrs) != 1 or len(tables) != 1:
        R.violation(fn + ' / X5 / roles', 'UNDECIDABLE', 'cannot identify the fresh-id counter (%d candidates) and the name table (%d candidates) of the tokenizer' % (len(ctrs), len(tables))); return
    CTR = ctrs[0]; TBL = tables.pop()
    C0 = Lin.var(('int', 'counter'))
    class Undec(Exception): pass
    syms = {}
    def sym(key):
        return Lin.var(('int', key))
    def ev(e, env):
        """integer value of e as a Lin, or a list of (constraint, Lin) alternatives for max/min"""
        e = strip(e)
        while e['k'] in ('Cast',): e = strip(e['source'])
        k = e['k']
        if k == 'Literal' and e.get('lit') == 'Int': return [(TRUE, Lin.const(int(e['value'])))]
        if k in ('VarRef', 'UpvarRef'):
            if e['var'] in env and env[e['var']] is not None: return [(TRUE, env[e['var']])]
            return [(TRUE, sym('v:' + e['var']))]
        if k == 'Field': return [(TRUE, sym('f:%s.%s' % (root_var(e['lhs']), e.get('field_name', e.get('field'))))) ]
        if k == 'Binary' and e['op'] in ('Add', 'Sub'):
            out = []
            for (c1, a_) in ev(e['lhs'], env):
                for (c2, b_) in ev(e['rhs'], env):
                    out.append((And(c1, c2), a_ + b_ if e['op'] == 'Add' else a_ - b_))
            return out
        if k == 'Call' and (callee_decl(e) in ('std::cmp::Ord::max', 'std::cmp::Ord::min') or (callee_name(e) or '') in ('std::cmp::max', 'std::cmp::min')) and len(e['args']) == 2:
            is_max = (callee_name(e) or callee_decl(e)).endswith('max')
            out = []
            for (c1, a_) in ev(e['args'][0], env):
                for (c2, b_) in ev(e['args'][1], env):
                    a_ge_b = ('le0', b_ - a_)
                    out.append((And(c1, c2, a_ge_b), a_ if is_max else b_))
                    out.append((And(c1, c2, Not(a_ge_b)), b_ if is_max else a_))
            return out
        if k == 'Call' and callee_decl(e) in ('std::clone::Clone::clone', 'std::ops::Deref::deref') and e['args']: return ev(e['args'][0], env)
        return [(TRUE, sym('x:%s' % pp(e)[:40]))]
    def cond(e, env):
        """alternatives (constraint for true, constraint for false) of a Boolean condition; unknown conditions constrain nothing"""
        e = strip(e)
        if e['k'] == 'Binary' and e['op'] in ('Ge', 'Gt', 'Le', 'Lt', 'Eq', 'Ne'):
            out = []
            for (c1, a_) in ev(e['lhs'], env):
                for (c2, b_) in ev(e['rhs'], env):
                    d = a_ - b_
                    tt = {'Ge': ('le0', -d), 'Gt': ('le0', -d + 1), 'Le': ('le0', d), 'Lt': ('le0', d + 1), 'Eq': ('eq0', d), 'Ne': Not(('eq0', d))}[e['op']]
                    out.append((And(c1, c2, tt), And(c1, c2, Not(tt))))
            return out
        if e['k'] == 'Unary' and e['op'] == 'Not': return [(f_, t_) for (t_, f_) in cond(e['arg'], env)]
        return [(TRUE, TRUE)]
    # paths: (path constraint, env, [inserted values])
    def run(e, states):
        while e['k'] in ('Use', 'NeverToAny'): e = e['source']
        k = e['k']
        if k == 'Block':
            for st in e['stmts']:
                if st['k'] == 'Let':
                    q = unwrap_pat(st['pat'])
                    if st.get('init') is not None:
                        states = run(st['init'], states)
                        if q['k'] == 'Binding': states = [(pc, dict(env, **{'#lets': dict(env.get('#lets', {}), **{q['var']: st['init']})}), ins) for (pc, env, ins) in states]
                        if q['k'] == 'Binding' and st['init']['ty'].get('s') in INT:
                            nxt = []
                            for (pc, env, ins) in states:
                                for (c_, v_) in ev(st['init'], env):
                                    e2 = dict(env); e2[q['var']] = v_; nxt.append((And(pc, c_), e2, ins))
                            states = nxt
                else:
                    states = run(st['expr'], states)
            if e['expr'] is not None: states = run(e['expr'], states)
            return states
        if k in ('Assign', 'AssignOp') and strip(e['lhs'])['k'] in ('VarRef', 'UpvarRef'):
            states = run(e['rhs'], states)
            v = strip(e['lhs'])['var']
            nxt = []
            for (pc, env, ins) in states:
                for (c_, r_) in ev(e['rhs'], env):
                    e2 = dict(env)
                    if k == 'Assign': e2[v] = r_
                    else:
                        cur = env.get(v)
                        if cur is None: cur = sym('v:' + v)
                        if e['op'].startswith('Add'): e2[v] = cur + r_
                        elif e['op'].startswith('Sub'): e2[v] = cur - r_
                        else: raise Undec('%s on %s' % (e['op'], v.split('#')[0]))
                    nxt.append((And(pc, c_), e2, ins))
            return nxt
        if k == 'If':
            c = e['cond']
            out = []
            if c['k'] == 'Let':
                looked = any(x['k'] == 'Call' and (callee_name(x) or '').split('::')[-1] in ('get', 'get_mut', 'contains_key', 'entry', 'get_key_value') and root_var(x['args'][0]) == TBL for x in walk(c['expr']))
                for (pc, env, ins) in states:
                    et = dict(env); et['#looked'] = env.get('#looked') or looked
                    ee = dict(env); ee['#looked'] = env.get('#looked') or looked
                    out += run(e['then'], [(pc, et, ins)])
                    out += run(e['else'], [(pc, ee, ins)]) if e.get('else') is not None else [(pc, ee, ins)]
                return out
            looked = any(x['k'] == 'Call' and (callee_name(x) or '').split('::')[-1] in ('contains_key', 'get') and root_var(x['args'][0]) == TBL for x in walk(c))
            for (pc, env, ins) in states:
                env = dict(env); env['#looked'] = env.get('#looked') or looked
                for (tc, fc) in cond(c, env):
                    out += run(e['then'], [(And(pc, tc), dict(env), ins)])
                    out += run(e['else'], [(And(pc, fc), dict(env), ins)]) if e.get('else') is not None else [(And(pc, fc), dict(env), ins)]
            return out
        if k == 'Match':
            if e.get('source') == 'ForLoopDesugar': return states            # an inner loop: not part of this step
            looked = any(x['k'] == 'Call' and (callee_name(x) or '').split('::')[-1] in ('get', 'get_mut', 'contains_key', 'entry') and x['args'] and root_var(x['args'][0]) == TBL for x in walk(e['scrutinee']))
            states = run(e['scrutinee'], states)
            out = []
            for a_ in e['arms']:
                sub = [(pc, dict(env, **{'#looked': env.get('#looked') or looked}), ins) for (pc, env, ins) in states]
                out += run(a_['body'], sub)
            return out
        if k == 'Call':
            en = entry_insert(e)
            if en is not None and root_var(en[0]) == TBL:
                # the entry API looks the name up itself: nothing happens for a known name, an unknown one is registered with the given value
                if en[1] == 'or_insert':
                    states = run(en[2], states)
                    nxt = []
                    for (pc, env, ins) in states:
                        nxt.append((pc, env, ins))
                        for (c_, v_) in ev(en[2], env): nxt.append((And(pc, c_), env, ins + [(v_, True, e['loc'])]))
                    return nxt
                ct_ = closure_of(en[2])
                if ct_ is None: raise Undec('or_insert_with takes something other than a closure')
                nxt = list(states)
                b_ = ct_['body']
                while b_['k'] in ('Use', 'NeverToAny'): b_ = b_['source']
                if b_['k'] == 'Block':
                    sub = run_block_value(b_, states)
                else:
                    sub = [(pc, env, ins, alt) for (pc, env, ins) in states for alt in ev(b_, env)]
                for (pc, env, ins, (c_, v_)) in sub:
                    nxt.append((And(pc, c_), env, ins + [(v_, True, e['loc'])]))
                return nxt
            cn_ = callee_name(e) or ''
            if cn_ in ('std::option::Option::unwrap_or_else', 'std::option::Option::or_else', 'std::option::Option::map_or_else') and e['args'] and closure_of(e['args'][1]) is not None:
                # `known.unwrap_or_else(|| { register a fresh id })`: nothing for a known name, the closure for an unknown one
                ct_ = closure_of(e['args'][1])
                def looks(x_, env_, depth=0):
                    x_ = strip(x_)
                    if any(y['k'] == 'Call' and (callee_name(y) or '').split('::')[-1] in ('get', 'get_mut', 'contains_key', 'get_key_value') and y['args'] and root_var(y['args'][0]) == TBL for y in walk(x_)): return True
                    return any(y['k'] in ('VarRef', 'UpvarRef') and y['var'] in env_.get('#lets', {}) and depth < 4 and looks(env_['#lets'][y['var']], env_, depth + 1) for y in walk(x_))
                states = run(e['args'][0], states)
                nxt = list(states)
                for (pc, env, ins) in states:
                    e2 = dict(env); e2['#looked'] = env.get('#looked') or looks(e['args'][0], env)
                    b_ = ct_['body']
                    while b_['k'] in ('Use', 'NeverToAny'): b_ = b_['source']
                    nxt += run(b_, [(pc, e2, ins)])
                return nxt
            for arg in e['args']: states = run(arg, states)
            if is_insert(e) and root_var(e['args'][0]) == TBL:
                nxt = []
                for (pc, env, ins) in states:
                    for (c_, v_) in ev(e['args'][2], env):
                        nxt.append((And(pc, c_), env, ins + [(v_, bool(env.get('#looked')), e['loc'])]))
                return nxt
            return states
        if k in ('Return', 'Break', 'Continue'): return []
        from facts import children
        for ch in children(e): states = run(ch, states)
        return states
    def run_block_value(b_, states):
        """run a closure's block and return (pc, env, ins, (constraint, value)) per path: the statements, then the tail expression"""
        marker = {'k': 'Block', 'stmts': b_['stmts'], 'expr': None}
        out = []
        for st0 in states:
            # run() rebinds lets inside the block's own env, which it returns: evaluate the tail in that env
            for (pc, env, ins) in run_keep(marker, [st0]):
                if b_.get('expr') is None: raise Undec('closure without a value')
                out += value_paths(b_['expr'], (pc, env, ins))
        return out
    def value_paths(e, st):
        """(pc, env, ins, (constraint, value)) for an expression used as a value: `if c { a } else { b }` forks on c"""
        while e['k'] in ('Use', 'NeverToAny'): e = e['source']
        if e['k'] == 'Block':
            return run_block_value(e, [st])
        if e['k'] == 'If' and e['cond']['k'] != 'Let' and e.get('else') is not None:
            out = []
            (pc, env, ins) = st
            for (tc, fc) in cond(e['cond'], env):
                out += value_paths(e['then'], (And(pc, tc), dict(env), ins))
                out += value_paths(e['else'], (And(pc, fc), dict(env), ins))
            return out
        out = []
        for st1 in run(e, [st]):
            for alt in ev(e, st1[1]): out.append((st1[0], st1[1], st1[2], alt))
        return out
    def run_keep(blk, states):
        return run(blk, states)
    # registration steps: bodies of the innermost loops that contain an insert into the table
    steps = []
    for (it, pat, body) in __import__('engine_l').for_loops(t['body']):
        registers = lambda y: (is_insert(y) or entry_insert(y) is not None) and table_of(y) == TBL
        def with_closures(bd, seen=None):
            seen = seen if seen is not None else set()
            for y in walk(bd):
                yield y
                if y['k'] == 'Closure' and canon(y['def']) in lib.ithir and canon(y['def']) not in seen:
                    seen.add(canon(y['def']))
                    for z in with_closures(lib.ithir[canon(y['def'])]['body'], seen): yield z
        has = [x for x in with_closures(body) if x['k'] == 'Call' and registers(x)]
        inner = any(any(y['k'] == 'Call' and registers(y) for y in walk(b2)) for (_i, _p, b2) in __import__('engine_l').for_loops(body))
        if has and not inner: steps.append(body)
    n = 0
    kinds_seen = set()
    if CTR in fold_init and TBL in collected:
        # the given ordering registered by two passes over the same list: the table collects (name, id) of every element, the counter is
        # folded over the same elements; one fold step is one registration step: c' >= c and c' >= id + 1
        fi = fold_init[CTR]; mp_ = collected[TBL]
        def src_of(it):
            it = strip(it)
            while it['k'] == 'Call' and it['args'] and (callee_name(it) or '').split('::')[-1] in ('iter', 'into_iter', 'deref', 'as_slice', 'as_ref', 'clone'): it = strip(it['args'][0])
            return it.get('var') if it['k'] in ('VarRef', 'UpvarRef') else None
        same_src = src_of(fi['args'][0]) is not None and src_of(fi['args'][0]) == src_of(mp_['args'][0])
        cf = closure_of(fi['args'][2]); cm = closure_of(mp_['args'][1])
        okp = False; whyp = 'the table and the counter are not built from the same list'
        if same_src and cf is not None and cm is not None and len(cf['params']) == 3 and len(cm['params']) == 2:
            cvar = unwrap_pat(cf['params'][1]['pat']).get('var'); evar = unwrap_pat(cf['params'][2]['pat']).get('var')
            mb = cm['body']
            while mb['k'] in ('Use', 'NeverToAny') or (mb['k'] == 'Block' and not mb['stmts'] and mb['expr'] is not None): mb = mb['source'] if mb['k'] != 'Block' else mb['expr']
            mvar = unwrap_pat(cm['params'][1]['pat']).get('var')
            pair_ok = mb['k'] == 'Tuple' and len(mb['fields']) == 2 and strip(mb['fields'][1])['k'] == 'Field' and strip(mb['fields'][1]).get('field_name') == 'id' and root_var(strip(mb['fields'][1])['lhs']) == mvar
            whyp = 'the collected pairs are not (name, id) of each listed variable'
            if pair_ok and cvar and evar:
                try:
                    fb = cf['body']
                    while fb['k'] in ('Use', 'NeverToAny'): fb = fb['source']
                    paths = run_block_value(fb if fb['k'] == 'Block' else {'k': 'Block', 'stmts': [], 'expr': fb}, [(TRUE, {cvar: C0}, [])])
                    idv = sym('f:%s.id' % evar)
                    okp = bool(paths)
                    for (pc, env, ins, (c_, v_)) in paths:
                        cex, _ = find_counterexample([And(pc, c_)], And(('le0', idv + 1 - v_), ('le0', C0 - v_)))
                        if cex is not None: okp = False; whyp = 'a fold step leaves the counter at %r for an element with id %r (counter before: `counter`)' % (v_, idv)
                except Undec as u:
                    okp = False; whyp = 'cannot follow the fold: %s' % u
        n += 1; kinds_seen.add('given')
        R.count('X5:id-registration-sites'); R.obligation(okp, 'X5 preload fold')
        if not okp: R.violation(fn + ' / X5 / preloaded ordering', 'X5', 'the given ordering must register every listed variable with its id and leave the counter above every listed id: %s' % whyp, fi.get('loc'))
    for body in steps:
        try:
            paths = run(body, [(TRUE, {CTR: C0}, [])])
        except Undec as u:
            R.violation(fn + ' / X5 / UNDECIDABLE', 'UNDECIDABLE', 'cannot follow the id counter: %s' % u); continue
        # a step that registers ids given from outside (the preloaded ordering: the id is a field of the loop element) registers every element:
        # no path through the step may skip the insert (a listed variable that is not registered would later be given a fresh id)
        given = lambda v_: any(isinstance(vv, tuple) and vv[0] == 'int' and str(vv[1]).startswith('f:') for vv in v_.terms)
        if any(given(v_) for (_pc, _env, ins) in paths for (v_, _l, _loc) in ins):
            skipping = [pc for (pc, _env, ins) in paths if not any(given(v_) for (v_, _l, _loc) in ins) and find_counterexample([], Not(pc))[0] is not None]
            R.count('X5:preload-paths', len(paths)); R.obligation(not skipping, 'X5 preload registers all')
            if skipping:
                R.violation(fn + ' / X5 / preloaded ordering', 'X5', 'some path through the loop over the given ordering does not register the listed variable with its listed id (%d of %d paths)' % (len(skipping), len(paths)))
        for (pc, env, ins) in paths:
            c1 = env.get(CTR)
            for (v_, looked, loc) in ins:
                n += 1
                fresh = any(vv == ('int', 'counter') for vv in v_.terms)
                kinds_seen.add('fresh' if fresh else ('given' if given(v_) else 'other'))
                goals = [('le0', v_ + 1 - c1), ('le0', C0 - c1)]
                if fresh: goals.append(('le0', C0 - v_))
                cex, _ = find_counterexample([pc], And(*goals))
                ok = cex is None and (looked or not fresh)
                R.count('X5:id-registration-sites'); R.obligation(ok, 'X5 #%d' % n)
                if not ok:
                    why = 'after registering id %r the counter is %r (was `counter`)' % (v_, c1) if cex is not None else 'a fresh id is taken without looking the name up in the table first'
                    R.violation('%s / X5 / registration #%d' % (fn, n), 'X5', 'id counter invariant (the counter stays above every registered id, a fresh id is not below it, known names keep their id) not maintained: %s' % why, loc)
    # the counter has no writers outside the registration steps
    step_ids = set(id(x) for b_ in steps for x in walk(b_))
    # closures of the tokenizer: the value closure of an or_insert_with inside a step belongs to that step, any other closure does not
    for b_ in steps:
        for x in walk(b_):
            en = entry_insert(x) if x['k'] == 'Call' else None
            if en is not None and en[1] == 'or_insert_with' and closure_of(en[2]) is not None:
                step_ids |= set(id(y) for y in walk(closure_of(en[2])['body']))
            if x['k'] == 'Call' and (callee_name(x) or '') in ('std::option::Option::unwrap_or_else', 'std::option::Option::or_else', 'std::option::Option::map_or_else') and len(x['args']) >= 2 and closure_of(x['args'][1]) is not None:
                step_ids |= set(id(y) for y in walk(closure_of(x['args'][1])['body']))
    bodies = [t['body']] + [ct_['body'] for nm_, ct_ in sorted(lib.ithir.items()) if nm_.startswith(fn + '::{closure')]
    writes = [x for bd in bodies for x in walk(bd) if x['k'] in ('Assign', 'AssignOp') and root_var(x['lhs']) == CTR]
    stray = [x for x in writes if id(x) not in step_ids]
    R.count('X5:counter-writes', len(writes)); R.obligation(not stray, 'X5 writers')
    if stray: R.violation(fn + ' / X5 / counter writers', 'X5', 'the id counter is written outside the steps that register an id', stray[0].get('loc'))
    if n < 2 or not {'fresh', 'given'} <= kinds_seen:
        R.violation(fn + ' / X5 / VACUITY', 'VACUITY', 'expected the registration of a listed id (preloaded ordering) and of a fresh id (new name) among the analysed steps; found %d registration(s) of kind %s: '
                    'the step that numbers new names was not recognised' % (n, sorted(kinds_seen)))

# ------------------------------------------------------------------------------------------------ X6 sibling agreement
def recursive_fields(lib):
    a = lib.adts.get(SYN)
    out = {}
    for v in a['variants']:
        rf = []
        for i, f in enumerate(v['fields']):
            s = f['ty']['s']
            if 'SymbolicBDD' in s and 'Token' not in s: rf.append(i)
        out[v['name']] = rf
    return out

def walk_pat_bindings(p):
    out = []
    def rec(q):
        if not isinstance(q, dict): return
        if q.get('k') == 'Binding': out.append(q['var'])
        for s_ in q.get('subs', []) or []: rec(s_['pat'])
        for s_ in q.get('pats', []) or []: rec(s_)
        if q.get('sub'): rec(q['sub'])
    rec(p)
    return out

def arm_variant_bindings(arm):
    """variant -> {field idx: var} for each SymbolicBDD variant pattern of the arm"""
    out = {}
    def rec(p):
        p = unwrap_pat(p)
        if p['k'] == 'Or':
            for q in p['pats']: rec(q)
        elif p['k'] == 'Variant' and canon(p['adt']) == SYN:
            b = {}
            for s in p['subs']:
                q = unwrap_pat(s['pat'])
                if q['k'] == 'Binding': b[s['field']] = q['var']
            out[p['variant']] = b
    rec(arm['pat'])
    return out

def visited_vars(body, is_use, walker=None, crate=None):
    """variables of the arm that reach a `use` either directly or as the subject of a for-loop whose body contains a use - or of a
    `flat_map` / `map` / `for_each` whose function is the walker itself (`f.iter().flat_map(Self::nodes_recursive)`) or a closure calling it"""
    seen = set()
    for e in walk(body):
        if walker is not None and e['k'] == 'Call' and callee_decl(e) in ('std::iter::Iterator::flat_map', 'std::iter::Iterator::map', 'std::iter::Iterator::for_each') and len(e['args']) == 2:
            f_ = strip(e['args'][1]); hit = False
            if f_['k'] == 'ZstLiteral' and 'fn' in f_ and canon(f_['fn'].get('res') or f_['fn']['def']) == walker: hit = True
            if f_['k'] == 'Closure' and crate is not None:
                ct_ = crate.ithir.get(canon(f_['def']))
                if ct_ is not None and len(ct_['params']) == 2:
                    pv_ = unwrap_pat(ct_['params'][1]['pat']).get('var')
                    hit = any(x['k'] == 'Call' and callee_name(x) == walker and any(root_var(a_) == pv_ for a_ in x['args']) for x in walk(ct_['body']))
            if hit:
                for x in walk(e['args'][0]):
                    if x['k'] in ('VarRef', 'UpvarRef'): seen.add(x['var'])
        if is_use(e):
            for x in walk(e):
                if x['k'] in ('VarRef', 'UpvarRef'): seen.add(x['var'])
        if e['k'] == 'Match':
            sc = strip(e['scrutinee'])
            if sc['k'] == 'Call' and callee_decl(sc) == 'std::iter::IntoIterator::into_iter':
                subj = set(x['var'] for x in walk(sc) if x['k'] in ('VarRef', 'UpvarRef'))
                if any(is_use(x) for x in walk(e)):
                    seen |= subj
    return seen

def rule_X6(F, R, parts=('coverage', 'labels')):
    lib = F.lib()
    rf = recursive_fields(lib)
    R.count('X6:variants', len(rf)); R.count('X6:recursive-fields', sum(len(v) for v in rf.values()))
    T = 'rsbdd::parser_io::SymbolicParseTree::'
    tn = lib.ithir.get(T + 'nodes_recursive')
    te = [k for k in lib.ithir if k.endswith('GraphWalk>::edges') and 'SymbolicParseTree' in k]
    tl = [k for k in lib.ithir if k.endswith('Labeller>::node_label') and 'SymbolicParseTree' in k]
    if tn is None or not te or not tl:
        R.violation('rsbdd::parser_io / X6 / anchor', 'UNDECIDABLE', 'parse-tree exporter functions not found'); return
    te = lib.ithir[te[0]]; tl = lib.ithir[tl[0]]
    import facts as _facts
    te = dict(te); te['body'] = _facts.extend_map_as_loops(te['body'], lib)          # edges.extend(xs.iter().map(|x| edge)) is a loop of pushes
    def coverage(t, is_use, what):
        cov = {}
        for m in walk(t['body']):
            if m['k'] != 'Match': continue
            arms = m['arms']
            if not any(arm_variant_bindings(a) for a in arms): continue
            for a in arms:
                vb = arm_variant_bindings(a)
                if not vb: continue
                seen = visited_vars(a['body'], is_use, walker if what == 'nodes' else None, lib)
                for variant, b in vb.items():
                    cov.setdefault(variant, set()).update(i for i, v in b.items() if v in seen)
            break
        return cov
    # the walker proper: nodes_recursive itself, or the new private helper it hands the work to (an accumulator walker
    # `collect_nodes(root, &mut nodes)`): the function that matches on the syntax node and calls itself on the children
    walker = T + 'nodes_recursive'
    def has_variant_match(t_): return any(m_['k'] == 'Match' and any(arm_variant_bindings(a_) for a_ in m_['arms']) for m_ in walk(t_['body']))
    if not has_variant_match(tn):
        todo = [tn]; seen_w = set()
        while todo:
            cur = todo.pop()
            for x in walk(cur['body']):
                g = callee_name(x) if x['k'] == 'Call' else None
                if g and g in lib.ithir and g not in seen_w and g not in _facts.baseline_fns() and '{closure' not in g:
                    seen_w.add(g)
                    if has_variant_match(lib.ithir[g]): walker = g; tn = lib.ithir[g]; todo = []; break
                    todo.append(lib.ithir[g])
    is_rec_call = lambda e: e['k'] == 'Call' and callee_name(e) == walker
    def is_edge_push(e):
        if not (e['k'] == 'Call' and callee_name(e) == 'std::vec::Vec::push'): return False
        return any(x['k'] == 'Call' and callee_decl(x) == 'std::iter::Iterator::position' for x in walk(e))
    # closures capture: treat closure upvars as uses inside the push
    def is_edge_push_deep(e):
        if not is_edge_push(e): return False
        return True
    cov_nodes = coverage(tn, is_rec_call, 'nodes')
    # for edges, variables referenced inside the position-closure are in the closure body: collect upvars
    def edge_cov():
        cov = {}
        for m in walk(te['body']):
            if m['k'] != 'Match': continue
            arms = m['arms']
            if not any(arm_variant_bindings(a) for a in arms): continue
            for a in arms:
                vb = arm_variant_bindings(a)
                if not vb: continue
                seen = set()
                for e in walk(a['body']):
                    if is_edge_push(e):
                        for x in walk(e):
                            if x['k'] == 'Closure':
                                ct = lib.ithir.get(canon(x['def']))
                                if ct:
                                    for y in walk(ct['body']):
                                        if y['k'] in ('UpvarRef', 'VarRef'): seen.add(y['var'])
                    if e['k'] == 'Match':
                        sc = strip(e['scrutinee'])
                        if sc['k'] == 'Call' and callee_decl(sc) == 'std::iter::IntoIterator::into_iter' and any(is_edge_push(x) for x in walk(e)):
                            seen |= set(x['var'] for x in walk(sc) if x['k'] in ('VarRef', 'UpvarRef'))
                for variant, b in vb.items():
                    cov.setdefault(variant, set()).update(i for i, v in b.items() if v in seen)
            break
        return cov
    cov_edges = edge_cov()
    for variant, fields in sorted(rf.items()):
        a = cov_nodes.get(variant, set()) & set(fields); b = cov_edges.get(variant, set()) & set(fields)
        ok = a == set(fields) and b == set(fields)
        R.obligation(ok, 'X6 ' + variant)
        if not ok:
            R.violation('rsbdd::parser_io::SymbolicParseTree / X6 / %s' % variant, 'X6',
                        'children of %s: syntax has recursive fields %s, node list visits %s, edges are emitted for %s' % (variant, fields, sorted(a), sorted(b)))
    if 'labels' not in parts: return
    # literal edge labels within one arm are pairwise distinct
    for m in walk(te['body']):
        if m['k'] != 'Match': continue
        if not any(arm_variant_bindings(a) for a in m['arms']): continue
        for a in m['arms']:
            vb = arm_variant_bindings(a)
            if not vb: continue
            labels = []
            for e in walk(a['body']):
                if is_edge_push(e):
                    tup = [x for x in walk(e) if x['k'] == 'Tuple' and len(x['fields']) == 3]
                    if tup:
                        lits = [x['value'] for x in walk(tup[0]['fields'][1]) if x['k'] == 'Literal' and x.get('lit') in ('Str', 'ByteStr')]
                        labels.append(repr(lits))
            ok = len(labels) == len(set(labels))
            R.count('X6:label-sets'); R.obligation(ok, 'X6 labels ' + '|'.join(sorted(vb)))
            if not ok:
                R.violation('rsbdd::parser_io::SymbolicParseTree / X6 / labels of %s' % '|'.join(sorted(vb)), 'X6', 'two outgoing edges of one node kind carry the same label %s: the children cannot be told apart' % labels)
        break
    # which label goes with which child: the documented labelling (a renamed label changes the exported text; a label on the wrong child
    # exports a different tree)
    REF_LABELS = {'BinaryOp': {'L': 1, 'R': 2}, 'Ite': {'If': 0, 'Then': 1, 'Else': 2}, 'CountableConst': {'{{}}': 1}, 'CountableVariable': {'L{{}}': 1, 'R{{}}': 2},      # `{j}` / `L{j}` / `R{j}`: literal braces around the index
                  'Quantifier': {'': 2}, 'Not': {'': 0}, 'FixedPoint': {'': 2}}
    import engine_u as _eu
    for m in walk(te['body']):
        if m['k'] != 'Match': continue
        if not any(arm_variant_bindings(a) for a in m['arms']): continue
        for a in m['arms']:
            vb = arm_variant_bindings(a)
            if not vb: continue
            # loop variables stand for the list they walk
            loopsrc = {}
            for fm in walk(a['body']):
                if fm['k'] == 'Match' and fm.get('source') == 'ForLoopDesugar':
                    sc = strip(fm['scrutinee'])
                    src = None
                    x = strip(sc['args'][0]) if sc['k'] == 'Call' and sc['args'] else None
                    while x is not None and x['k'] == 'Call' and x['args']: x = strip(x['args'][0])
                    if x is not None and x['k'] in ('VarRef', 'UpvarRef'): src = x['var']
                    for mm in walk(fm['arms'][0]['body']):
                        if mm['k'] == 'Match' and mm.get('source') == 'ForLoopDesugar':
                            for aa in mm['arms']:
                                pp_ = unwrap_pat(aa['pat'])
                                if pp_['k'] == 'Variant' and pp_['variant'] == 'Some' and pp_['subs']:
                                    for bnd in walk_pat_bindings(pp_['subs'][0]['pat']): loopsrc[bnd] = src
                            break
            got = {}
            in_table_loop = set()
            # `for (label, child) in [("L", l), ("R", r)] { edges.push((i, label.to_string(), position(child))) }`: the pairs are spelt out in the array
            for fm in walk(a['body']):
                if fm['k'] == 'Match' and fm.get('source') == 'ForLoopDesugar':
                    sc = strip(fm['scrutinee'])
                    arr = strip(sc['args'][0]) if sc['k'] == 'Call' and sc['args'] else None
                    while arr is not None and arr['k'] == 'Call' and arr['args'] and (callee_name(arr) or '').split('::')[-1] in ('iter', 'into_iter'): arr = strip(arr['args'][0])
                    if arr is not None and arr['k'] == 'Array' and arr['fields'] and all(strip(f)['k'] == 'Tuple' and len(strip(f)['fields']) == 2 for f in arr['fields']):
                        pairs = []
                        for f in arr['fields']:
                            l_, c_ = strip(f)['fields']
                            l_ = strip(l_); cv = root_var(c_)
                            if l_['k'] == 'Literal' and l_.get('lit') == 'Str' and cv: pairs.append((l_['value'], cv))
                        if len(pairs) == len(arr['fields']) and any(is_edge_push(x) for x in walk(fm)):
                            # the label of the pushed edge: the table's text itself (`label.to_string()`), or a format with the text in one of its holes
                            # (`format!("{side}{{{j}}}")` in a nested loop over the list): rendered with the table's text filled in
                            labvar = None
                            for m_ in walk(fm['arms'][0]['body']):
                                if m_['k'] == 'Match' and m_.get('source') == 'ForLoopDesugar':
                                    for a_ in m_['arms']:
                                        p_ = unwrap_pat(a_['pat'])
                                        if p_['k'] == 'Variant' and p_['variant'] == 'Some' and p_['subs']:
                                            tp_ = unwrap_pat(p_['subs'][0]['pat'])
                                            if tp_['k'] == 'Leaf' and tp_.get('subs'):
                                                for sp_ in tp_['subs']:
                                                    if sp_['field'] == 0 and unwrap_pat(sp_['pat'])['k'] == 'Binding': labvar = unwrap_pat(sp_['pat'])['var']
                                    break
                            pushes_ = [x for x in walk(fm) if is_edge_push(x)]
                            tup_ = [x for x in walk(pushes_[0]) if x['k'] == 'Tuple' and len(x['fields']) == 3] if len(pushes_) == 1 else []
                            for l_, cv in pairs:
                                text = l_
                                if tup_ and labvar is not None and any(x['k'] == 'Literal' and x.get('lit') == 'ByteStr' for x in walk(tup_[0]['fields'][1])):
                                    import engine_n as _en
                                    try: text = ''.join(txt for _, txt in _en.rendered_texts(tup_[0]['fields'][1], (), {labvar: l_}))
                                    except Exception: text = '?'
                                got[text] = {cv}
                            for x in walk(fm): in_table_loop.add(id(x))
            for e in walk(a['body']):
                if not is_edge_push(e) or id(e) in in_table_loop: continue
                tup = [x for x in walk(e) if x['k'] == 'Tuple' and len(x['fields']) == 3]
                if not tup: continue
                import engine_n as _en
                try: lit = ''.join(txt for _, txt in _en.rendered_texts(tup[0]['fields'][1]))          # format holes with a literal argument filled in (`{side}{{{j}}}` with side = "L" is `L{j}`)
                except Exception: lit = '?'
                child = set()
                for x in walk(tup[0]['fields'][2]):
                    if x['k'] == 'Closure':
                        ct = lib.ithir.get(canon(x['def']))
                        if ct:
                            for y in walk(ct['body']):
                                if y['k'] in ('UpvarRef', 'VarRef'): child.add(loopsrc.get(y['var'], y['var']))
                got[lit] = child
            for variant, b in vb.items():
                ref = REF_LABELS.get(variant)
                if ref is None: continue
                mine = {}
                for lit, vars_ in got.items():
                    idx = sorted(i for i, v in b.items() if v in vars_)
                    if idx: mine[lit] = idx[0] if len(idx) == 1 else tuple(idx)
                ok = mine == ref
                R.count('X6:label-child-pairs'); R.obligation(ok, 'X6 label-child ' + variant)
                if not ok:
                    R.violation('rsbdd::parser_io::SymbolicParseTree / X6 / labels of %s' % variant, 'X6',
                                'the outgoing edges of a %s node must be labelled %s (label -> field of the node); found %s' % (variant, ref, mine))
        break
    # every non-recursive field of a node kind (operator, binder list, bound, name, initial value) must reach its label
    a = lib.adts.get(SYN)
    payload = {}
    for v in a['variants']:
        payload[v['name']] = [i for i, f in enumerate(v['fields']) if i not in rf[v['name']] and 'bdd::BDD' not in f['ty']['s']]
    for m in walk(tl['body']):
        if m['k'] != 'Match': continue
        if not any(arm_variant_bindings(x) for x in m['arms']): continue
        for arm in m['arms']:
            vb = arm_variant_bindings(arm)
            used = set(x['var'] for x in walk(arm['body']) if x['k'] in ('VarRef', 'UpvarRef'))
            for variant, b in vb.items():
                need = payload.get(variant, [])
                missing = [i for i in need if b.get(i) is None or b[i] not in used]
                R.count('X6:label-payload-fields', len(need)); R.obligation(not missing, 'X6 payload ' + variant)
                if missing:
                    R.violation('rsbdd::parser_io::SymbolicParseTree / X6 / label of %s' % variant, 'X6',
                                'the label of a %s node does not show its field(s) %s (operator / binder list / bound / name): the exported tree no longer determines the syntax tree' % (variant, missing), arm['body'].get('loc'))
        break
    # node_label has an arm per variant
    named = set()
    for m in walk(tl['body']):
        if m['k'] == 'Match':
            for a in m['arms']:
                for v in arm_variant_bindings(a): named.add(v)
    ok = named == set(rf)
    R.obligation(ok, 'X6 node_label')
    if not ok: R.violation('rsbdd::parser_io::SymbolicParseTree / X6 / node_label', 'X6', 'node kinds without their own label arm: %s' % sorted(set(rf) - named))
    R.sample({'rule': 'X6', 'recursive fields': rf, 'visited by nodes_recursive': {k: sorted(v) for k, v in cov_nodes.items()}, 'edges emitted': {k: sorted(v) for k, v in cov_edges.items()}})

# ------------------------------------------------------------------------------------------------ X7 exporter plumbing
def rule_X4_rendered(F, R):
    """C14: an export that is asked for is written: every graph object main builds for -d / -p (`BDDGraph::new`, `SymbolicParseTree::new`) is
    the receiver of a `render_dot` call whose outcome is propagated (a created but never written file is an empty export that exits 0)"""
    binc = F.bin()
    main = binc.ithir.get('rsbdd::main') if binc else None
    if main is None:
        R.violation('rsbdd::main / X4 / anchor', 'UNDECIDABLE', 'main not found'); return
    CTORS = ('rsbdd::bdd_io::BDDGraph::new', 'rsbdd::parser_io::SymbolicParseTree::new')
    tried = set()
    for e in walk(main['body']):
        if e['k'] == 'Match' and 'TryDesugar' in str(e.get('source')):
            for x in walk(e['scrutinee']): tried.add(id(x))
    tails = []
    def tail_of(b):
        while b['k'] in ('Use', 'NeverToAny'): b = b['source']
        if b['k'] == 'Block' and b.get('expr') is not None: tail_of(b['expr'])
        elif b['k'] == 'If':
            tail_of(b['then'])
            if b.get('else') is not None: tail_of(b['else'])
        else: tails.append(b)
    n = 0
    for b in walk(main['body']):
        if b['k'] != 'Block': continue
        for st in b['stmts']:
            if st['k'] != 'Let' or st.get('init') is None: continue
            i0 = strip(st['init'])
            if not (i0['k'] == 'Call' and callee_name(i0) in CTORS): continue
            g = unwrap_pat(st['pat']).get('var')
            n += 1
            renders = [x for x in walk(b) if x['k'] == 'Call' and (callee_name(x) or '').split('::')[-1] == 'render_dot' and x['args'] and root_var(x['args'][0]) == g]
            tails.clear(); tail_of(b)
            ok = len(renders) >= 1 and all(id(x) in tried or any(x is t_ for t_ in tails) for x in renders)
            R.count('X4:exports-rendered'); R.obligation(ok, 'X4 rendered %s' % st.get('loc'))
            if not ok:
                R.violation('rsbdd::main / X4 / export written', 'X4', 'the %s built for the export must be rendered into its file with the outcome propagated (found %d render_dot call(s))' % (callee_name(i0).split('::')[-2], len(renders)), st.get('loc'))
    if n == 0:
        # the exports may live in helpers that were not inlined: then the constructors are not in main at all
        others = [nm for nm, t_ in binc.ithir.items() if '{closure' not in nm and any(x['k'] == 'Call' and callee_name(x) in CTORS for x in walk(t_['body']))]
        if not others: R.violation('rsbdd::main / X4 / export written / VACUITY', 'VACUITY', 'no export graph is built anywhere in the binary')

def rule_X7_children(F, R):
    """C14: the diagram exporter descends into *both* children of every decision node, for the node list and for the edge list (a walker
    that visits one child twice leaves the other sub-diagram out: edges into nodes that are never declared); and the parse-tree exporter
    finds the node an edge leads to by looking for the child itself (`position(|n| n == child)`)"""
    lib = F.lib()
    G = 'rsbdd::bdd_io::BDDGraph::'
    nm, tn = dot_node_collector(lib)
    for what, name, t in (('node list', nm, tn), ('edge list', G + 'edges_recursive', lib.ithir.get(G + 'edges_recursive'))):
        if t is None:
            R.violation('rsbdd::bdd_io::BDDGraph / X7 / %s walker' % what, 'UNDECIDABLE', 'the function that builds the %s of the diagram was not found' % what); continue
        import facts as _facts
        tt = dict(t); tt['body'] = _facts.unroll_array_loops(t['body'])
        cb = choice_bindings(tt)
        seen = set()
        for e in walk(tt['body']):
            if e['k'] == 'Call' and callee_name(e) == name:
                for a in e['args']:
                    ch = cb.get(root_var(a))
                    if ch in (0, 2): seen.add(ch)
        ok = seen == {0, 2}
        R.count('X7:children-descended'); R.obligation(ok, 'X7 children ' + what)
        if not ok:
            R.violation('%s / X7 / both children' % name, 'X7', 'the %s must be built from both children of a decision node; the recursive calls reach %s' % (
                what, sorted({0: 'the true-branch', 2: 'the false-branch'}[c_] for c_ in seen) or 'neither'), t['span']['loc'])
    te = [k for k in lib.ithir if k.endswith('GraphWalk>::edges') and 'SymbolicParseTree' in k]
    n = 0
    if te:
        names = [te[0]] + [k for k in lib.ithir if k.startswith(te[0] + '::{closure')]
        for nm_ in names:
            for e in walk(lib.ithir[nm_]['body']):
                if e['k'] == 'Call' and callee_decl(e) == 'std::iter::Iterator::position' and len(e['args']) == 2:
                    cl = strip(e['args'][1])
                    ct = lib.ithir.get(canon(cl['def'])) if cl['k'] == 'Closure' else None
                    if ct is None or len(ct['params']) != 2: continue
                    n += 1
                    pv = unwrap_pat(ct['params'][1]['pat']).get('var')
                    b = ct['body']
                    while b['k'] in ('Use', 'NeverToAny') or (b['k'] == 'Block' and not b['stmts'] and b.get('expr') is not None): b = b['source'] if b['k'] != 'Block' else b['expr']
                    b = strip(b)
                    l_ = r_ = None
                    if b['k'] == 'Call' and callee_decl(b) == 'std::cmp::PartialEq::eq': l_, r_ = b['args']
                    elif b['k'] == 'Binary' and b['op'] == 'Eq': l_, r_ = b['lhs'], b['rhs']
                    ok = l_ is not None and {root_var(l_) == pv, root_var(r_) == pv} == {True, False}
                    # ... among all nodes, counted from the first: the search runs over `self.nodes.iter()` itself (an adaptor in between shifts or reverses the index)
                    rc_ = strip(e['args'][0]); chain_ = []
                    while rc_['k'] == 'Call' and rc_['args']:
                        chain_.append((callee_name(rc_) or '').split('::')[-1]); rc_ = strip(rc_['args'][0])
                    if not all(c_ in ('iter', 'deref', 'as_slice', 'as_ref') for c_ in chain_): ok = False
                    R.count('X7:position-tests'); R.obligation(ok, 'X7 position %s' % e.get('loc'))
                    if not ok: R.violation('%s / X7 / target of an edge' % te[0], 'X7', 'the node an edge leads to must be found by equality with the child among all nodes (`self.nodes.iter().position(|n| n == child)`)', e.get('loc'))
    if te and n == 0: R.violation('rsbdd::parser_io::SymbolicParseTree / X7 / VACUITY', 'VACUITY', 'no position look-up found in the parse-tree edges')
    # the node list of the parse-tree graph is every index of self.nodes: 0..len
    tn_ = [k for k in lib.ithir if k.endswith('GraphWalk>::nodes') and 'SymbolicParseTree' in k]
    if tn_:
        tt_ = lib.ithir[tn_[0]]
        rngs = [x for x in walk(tt_['body']) if x['k'] == 'Adt' and canon(x['adt']) == 'std::ops::Range']
        incl = [x for x in walk(tt_['body']) if x['k'] == 'Call' and callee_name(x) == 'std::ops::RangeInclusive::new']
        thin = [x for x in walk(tt_['body']) if x['k'] == 'Call' and (callee_name(x) or '').split('::')[-1] in ('skip', 'take', 'filter', 'step_by', 'skip_while', 'take_while')]
        okr = True
        if rngs or incl or thin:
            okr = len(rngs) == 1 and not incl and not thin
            if okr:
                lo = [f['expr'] for f in rngs[0]['fields'] if f['name'] == 'start'][0]; hi = strip([f['expr'] for f in rngs[0]['fields'] if f['name'] == 'end'][0])
                okr = str(strip(lo).get('value')) == '0' and hi['k'] == 'Call' and (callee_name(hi) or '').split('::')[-1] == 'len' and any(y['k'] == 'Field' and y.get('field_name') == 'nodes' for y in walk(hi))
        R.count('X7:parse-tree-node-range'); R.obligation(okr, 'X7 node range')
        if not okr: R.violation('%s / X7 / node list' % tn_[0], 'X7', 'the nodes of the parse-tree graph must be all indices 0..self.nodes.len()', tt_['span']['loc'])

def rule_X7(F, R):
    """C14: (a) every label of both exporters is built as plain text that the dot crate escapes (LabelText::label / LabelStr) - the
    `escaped` / `html` forms pass backslashes and markup through; (b) the node and edge lists of the diagram exporter and the node
    list of the parse-tree exporter are de-duplicated (a shared node is one node with one set of outgoing edges); (c) the parse-tree
    exporter walks every child list element by element (`list.iter().enumerate()`, no skipping / de-duplicating adaptor in between)"""
    lib = F.lib()
    # (a) label constructors
    n = 0
    for name, t in lib.ithir.items():
        base = name.split('::{closure')[0]
        if not (base.endswith('Labeller>::node_label') or base.endswith('Labeller>::edge_label')): continue
        for e in walk(t['body']):
            kind = None
            if e['k'] == 'Call' and '::'.join((callee_name(e) or '').split('::')[-3:-1]) == 'dot::LabelText': kind = callee_name(e).split('::')[-1]
            if e['k'] == 'Adt' and canon(e['adt']).endswith('dot::LabelText'): kind = e['variant']
            if kind is None: continue
            n += 1
            ok = kind in ('label', 'LabelStr')
            R.count('X7:label-constructors'); R.obligation(ok, 'X7 label %s %s' % (name, e['loc']))
            if not ok:
                R.violation('%s / X7 / label built with %s' % (base, kind), 'X7', 'labels must be plain text that the dot writer escapes (LabelText::label / LabelStr); `%s` writes backslashes and markup of a variable name through to the file' % kind, e['loc'])
    if n < 4: R.violation('rsbdd exporters / X7 / VACUITY', 'VACUITY', 'expected label constructors in four Labeller functions, found %d' % n)
    # (a') the identity of a test node in the exported diagram is the address of the shared node (one node, one id; two nodes, two ids):
    # a content hash is not injective, a label or variable name is shared by many nodes
    nid = [k for k in lib.ithir if k.endswith('Labeller>::node_id') and 'BDDGraph' in k]
    if nid:
        t = lib.ithir[nid[0]]
        pn = unwrap_pat(t['params'][1]['pat']).get('var') if len(t['params']) > 1 and 'pat' in t['params'][1] else None
        fmts = [e for e in walk(t['body']) if e['k'] == 'Call' and (callee_name(e) or '').endswith('dot::Id::new') and any(x['k'] == 'Literal' and x.get('lit') == 'ByteStr' for x in walk(e))]
        ok = len(fmts) == 1
        why = 'expected one formatted id (for test nodes), found %d' % len(fmts)
        if ok:
            ptr = [x for x in walk(fmts[0]) if x['k'] == 'Call' and (callee_name(x) or '').split('::')[-1] == 'new_pointer']
            tup = [strip(st['init']) for b_ in walk(fmts[0]) if b_['k'] == 'Block' for st in b_['stmts'] if st['k'] == 'Let' and st.get('init') is not None and strip(st['init'])['k'] == 'Tuple']
            def from_node(x):
                x = strip(x)
                while x['k'] == 'Call' and x['args'] and ((callee_name(x) or '') in ('std::rc::Rc::into_raw', 'std::rc::Rc::as_ptr') or (callee_decl(x) or '') in ('std::clone::Clone::clone', 'std::ops::Deref::deref', 'std::convert::AsRef::as_ref')):
                    x = strip(x['args'][0])
                return x['k'] in ('VarRef', 'UpvarRef') and x['var'] == pn
            ok = len(ptr) >= 1 and bool(tup) and any(from_node(f) for f in tup[0]['fields']) and all(from_node(f) for f in tup[0]['fields'] )
            why = 'the id of a test node must be made from the address of the node itself (`{:p}` of the shared Rc), nothing else'
        R.count('X7:node-identity'); R.obligation(ok, 'X7 node identity')
        if not ok: R.violation('rsbdd::bdd_io::BDDGraph / X7 / node identity', 'X7', why, t['span']['loc'] if 'span' in t else None)
    # (b) de-duplication
    for fn, what in (('rsbdd::bdd_io::BDDGraph::nodes_recursive', 'node list of the diagram'), ('rsbdd::bdd_io::BDDGraph::edges_recursive', 'edge list of the diagram'),
                     ('rsbdd::parser_io::SymbolicParseTree::new', 'node list of the parse tree')):
        t = lib.ithir.get(fn)
        if t is None and fn.endswith('BDDGraph::nodes_recursive'): _n2, t = dot_node_collector(lib)
        ok = False
        if t is not None:
            uniq = [e for e in walk(t['body']) if e['k'] == 'Call' and callee_name(e) in ('itertools::Itertools::unique', 'itertools::Itertools::unique_by', 'itertools::Itertools::dedup')]
            sets = [e for e in walk(t['body']) if e['k'] == 'Call' and (callee_name(e) or '').split('::')[-1] in ('collect',) and any(s_ in e['ty'].get('s', '') for s_ in ('HashSet', 'BTreeSet', 'IndexSet'))]
            ok = any(callee_name(e) == 'itertools::Itertools::unique' for e in uniq) or bool(sets)
            if not ok:
                # a walker that appends to a list it is given: every append sits under `if seen.insert(<the same node>)` on a set of nodes
                pushes = [e for e in walk(t['body']) if e['k'] == 'Call' and callee_name(e) == 'std::vec::Vec::push']
                guarded_ = 0
                for i_ in walk(t['body']):
                    if i_['k'] == 'If' and i_['cond']['k'] != 'Let':
                        c_ = strip(i_['cond'])
                        if c_['k'] == 'Call' and (callee_name(c_) or '').endswith('Set::insert') and len(c_['args']) == 2:
                            for p_ in [x for x in walk(i_['then']) if x['k'] == 'Call' and callee_name(x) == 'std::vec::Vec::push']:
                                if root_var(p_['args'][1]) is not None and root_var(p_['args'][1]) == root_var(c_['args'][1]): guarded_ += 1
                ok = bool(pushes) and guarded_ == len(pushes)
        R.count('X7:deduplicated-lists'); R.obligation(ok, 'X7 unique ' + fn)
        if not ok: R.violation('%s / X7 / duplicates' % fn, 'X7', 'the %s must be de-duplicated (`.unique()`): a node shared by several parents is one node with one set of outgoing edges' % what)
    # (b') the edges of the parse tree are NOT de-duplicated: an operator applied to the same sub-term twice (`a & a`, `[a, a, b] = 2`) has two
    # edges to the one shared node, told apart by their labels
    pte = [k for k in lib.ithir if k.split('::{closure')[0].endswith('GraphWalk>::edges') and 'SymbolicParseTree' in k]
    for k in pte:
        for e in walk(lib.ithir[k]['body']):
            if e['k'] == 'Call' and (callee_name(e) or '').split('::')[-1] in ('unique', 'unique_by', 'dedup', 'dedup_by', 'dedup_by_key') or \
                    (e['k'] == 'Call' and (callee_name(e) or '').split('::')[-1] == 'collect' and any(s_ in e['ty'].get('s', '') for s_ in ('HashSet', 'BTreeSet', 'IndexSet', 'HashMap', 'BTreeMap'))):
                R.obligation(False, 'X7 parse-tree edges dedup')
                R.violation('rsbdd::parser_io::SymbolicParseTree / X7 / edges de-duplicated', 'X7', 'the edge list of the parse tree must keep parallel edges (one per operand position): `%s` merges the edges of a node whose operands are the same sub-term' % (callee_name(e) or '').split('::')[-1], e['loc'])
    R.count('X7:parse-tree-edge-lists', len(pte))
    # (c') the label of a node shows its lists as they are: no adaptor that drops, repeats or reorders members
    BAD = ('unique', 'unique_by', 'dedup', 'dedup_by', 'filter', 'filter_map', 'skip', 'take', 'skip_while', 'take_while', 'step_by', 'rev', 'sorted', 'sorted_by', 'sorted_by_key', 'last', 'nth', 'first')
    for name, t in lib.ithir.items():
        base = name.split('::{closure')[0]
        if not (base.endswith('Labeller>::node_label') and 'SymbolicParseTree' in base): continue
        for e in walk(t['body']):
            if e['k'] == 'Call' and (callee_name(e) or '').split('::')[-1] in BAD:
                R.obligation(False, 'X7 label adaptor')
                R.violation('%s / X7 / label list through %s' % (base, (callee_name(e) or '').split('::')[-1]), 'X7',
                            'a node label passes a list of the node through `%s`: the label no longer shows the list the syntax tree holds' % (callee_name(e) or '').split('::')[-1], e['loc'])
    # (c) child lists walked element by element
    te = [k for k in lib.ithir if k.endswith('GraphWalk>::edges') and 'SymbolicParseTree' in k]
    if te:
        import facts as _facts
        t = lib.ithir[te[0]]
        for m in walk(_facts.extend_map_as_loops(t['body'], lib)):
            if m['k'] == 'Match' and m.get('source') == 'ForLoopDesugar':
                sc = strip(m['scrutinee'])
                it = strip(sc['args'][0]) if sc['k'] == 'Call' and sc['args'] else None
                if it is None: continue
                chain = []
                x = it
                while x['k'] == 'Call' and x['args']:
                    chain.append((callee_name(x) or '').split('::')[-1]); x = strip(x['args'][0])
                if x['k'] not in ('VarRef', 'UpvarRef', 'Field'): continue
                ok = all(c in ('iter', 'enumerate', 'into_iter', 'deref', 'as_ref', 'as_slice') for c in chain)
                R.count('X7:child-list-loops'); R.obligation(ok, 'X7 loop %s' % m.get('loc'))
                if not ok:
                    R.violation('rsbdd::parser_io::SymbolicParseTree / X7 / child list iteration', 'X7', 'a child list is walked through %s: every element must get its own edge and index (no skipping or de-duplicating adaptor)' % '.'.join(reversed(chain)), m.get('loc'))

# ------------------------------------------------------------------------------------------------ XR named definitions
def rule_references(F, R, which=('eval_recursive', 'replace_var', 'var_is_free')):
    """A named definition `{name}` stands for its text: each syntax-directed function treats Reference(name) in an arm of its own that
    looks the definition up and, for a Syntax definition, recurses into it with its other arguments unchanged (replace_var substitutes
    inside the definition, var_is_free looks inside it, eval_recursive evaluates it).  Engine S leaves Reference out of its worlds."""
    lib = F.lib()
    PFm = 'rsbdd::parser::ParsedFormula::'
    for short in which:
        fn = PFm + short
        t = lib.ithir.get(fn)
        if t is None:
            R.violation(fn + ' / XR / anchor', 'UNDECIDABLE', '%s not found' % short); continue
        params = [unwrap_pat(p['pat']).get('var') if 'pat' in p else None for p in t['params']]
        arm = None; merged = False
        for m in walk(t['body']):
            if m['k'] != 'Match': continue
            for a in m['arms']:
                vs = arm_variant_bindings(a)
                if 'Reference' in vs:
                    arm = (a, vs['Reference'].get(0)); merged = len(vs) > 1
            if arm: break
        ok = arm is not None and not merged and arm[1] is not None
        why = 'no arm of its own for Reference(name)' if not ok else ''
        if ok:
            a, namevar = arm
            bodies = [a['body']] + [lib.ithir[canon(x['def'])]['body'] for x in walk(a['body']) if x['k'] == 'Closure' and canon(x['def']) in lib.ithir]
            look = [x for bd in bodies for x in walk(bd) if x['k'] == 'Call' and callee_name(x) == PFm + 'get_definition' and root_var(x['args'][1]) == namevar]
            syn = set()
            def find_syntax(q_):
                q_ = unwrap_pat(q_)
                if q_['k'] == 'Variant' and q_.get('variant') == 'Syntax' and q_.get('subs'): return q_
                for sp_ in q_.get('subs') or []:
                    r_ = find_syntax(sp_['pat'])
                    if r_ is not None: return r_
                return None
            def recursions(scope, bvar):
                return [x for x in walk(scope) if x['k'] == 'Call' and callee_name(x) == fn and root_var(x['args'][1]) == bvar and
                        all(root_var(x['args'][i]) == params[i] for i in range(2, len(params))) and root_var(x['args'][0]) == params[0]]
            for bd in bodies:
                # `let Some(Syntax(s)) = self.get_definition(name) else { .. };` / `if let Some(Syntax(s)) = .. { .. }`: the payload is bound for the rest of the block / the then-branch
                for blk in walk(bd):
                    if blk['k'] == 'Block':
                        for st in blk['stmts']:
                            if st['k'] == 'Let' and st.get('init') is not None:
                                q = find_syntax(st['pat'])
                                b_ = unwrap_pat(q['subs'][0]['pat']) if q is not None else None
                                if b_ is not None and b_['k'] == 'Binding' and recursions(blk, b_['var']): syn.add(b_['var'])
                    if blk['k'] == 'If' and blk['cond']['k'] == 'Let':
                        q = find_syntax(blk['cond']['pat'])
                        b_ = unwrap_pat(q['subs'][0]['pat']) if q is not None else None
                        if b_ is not None and b_['k'] == 'Binding' and recursions(blk['then'], b_['var']): syn.add(b_['var'])
            for bd in bodies:
                for mm in walk(bd):
                    if mm['k'] == 'Match':
                        for aa in mm['arms']:
                            def find_syntax(q_):
                                q_ = unwrap_pat(q_)
                                if q_['k'] == 'Variant' and q_.get('variant') == 'Syntax' and q_.get('subs'): return q_
                                for sp_ in q_.get('subs') or []:
                                    r_ = find_syntax(sp_['pat'])
                                    if r_ is not None: return r_
                                return None
                            q = find_syntax(aa['pat'])           # `Syntax(s)` or `Some(Syntax(s))`
                            if q is not None:
                                b_ = unwrap_pat(q['subs'][0]['pat'])
                                if b_['k'] == 'Binding':
                                    for x in walk(aa['body']):
                                        if x['k'] == 'Call' and callee_name(x) == fn and root_var(x['args'][1]) == b_['var'] and \
                                                all(root_var(x['args'][i]) == params[i] for i in range(2, len(params))) and root_var(x['args'][0]) == params[0]:
                                            syn.add(b_['var'])
            ok = len(look) == 1 and len(syn) == 1
            why = 'the Reference arm must look the definition up once and recurse into a Syntax definition with the other arguments unchanged (look-ups: %d, recursions into the definition: %d)' % (len(look), len(syn))
        if ok:
            # the syntax-directed functions only read the definitions: no `define`, no mutable borrow of the table
            bodies_all = [t['body']] + [ct_['body'] for nm_, ct_ in sorted(lib.ithir.items()) if nm_.startswith(fn + '::{closure')]
            writes = [x for bd in bodies_all for x in walk(bd) if x['k'] == 'Call' and (callee_name(x) == PFm + 'define' or
                      ((callee_name(x) or '') in ('std::cell::RefCell::borrow_mut', 'std::cell::RefCell::replace', 'std::cell::RefCell::take') and strip(x['args'][0]).get('field_name') == 'definitions'))]
            if writes:
                ok = False; why = 'it changes the definitions while walking the formula (a later evaluation, or another reference to the same name, sees a different definition)'
        R.count('XR:reference-arms'); R.obligation(ok, 'XR ' + short)
        if not ok: R.violation('%s / XR / named definitions' % fn, 'XR', '%s: %s' % (short, why), t['span']['loc'] if 'span' in t else None)

# ------------------------------------------------------------------------------------------------ X12 layout of a table row
class _RowUndec(Exception): pass

def row_text(binc, t, k):
    """the text print_sized_line writes for a row of k cells, with the cells «L0»..«Lk-1» and the result «R» as opaque pieces (padding is
    ignored): a small interpreter for print!/write! calls, loops over the labels, collected / joined lists of strings and nested format!s"""
    import engine_n, engine_u
    params = [unwrap_pat(p['pat']).get('var') if 'pat' in p else None for p in t['params']]
    labels_p, result_p = params[0], params[-1]
    LAB = ['\u00abL%d\u00bb' % i for i in range(k)]
    def peel(e):
        while e['k'] in ('Use', 'Borrow', 'Deref', 'NeverToAny', 'Cast', 'PointerCoercion'): e = e.get('source') or e.get('arg')
        return e
    TRANSP = ('to_string', 'clone', 'deref', 'as_str', 'to_owned', 'as_ref', 'into', 'from', 'borrow', 'must_use', 'iter', 'into_iter', 'collect', 'as_slice', 'deref_mut', 'cloned', 'copied', 'by_ref')
    def fmt(b, env):
        tm, args = engine_n.format_block_parts(b)
        if tm is None: raise _RowUndec('format without a template')
        text = engine_u.decode_template(tm['value'])
        parts = text.split('{}')
        if len(parts) == 1: return text
        wr = None
        for st in b['stmts']:
            i0 = peel(st['init']) if st['k'] == 'Let' and st.get('init') is not None else None
            if i0 is not None and i0['k'] == 'Array': wr = i0['fields']
        if args is None or wr is None or len(wr) != len(parts) - 1: raise _RowUndec('format arguments')
        out = parts[0]
        for w, nxt in zip(wr, parts[1:]):
            fld = [x for x in walk(w) if x['k'] == 'Field']
            if not fld or fld[0]['field'] >= len(args): raise _RowUndec('format argument')
            out += ev_str(args[fld[0]['field']], env) + nxt
        return out
    def is_fmt_block(b):
        return b['k'] == 'Block' and b.get('expr') is not None and any(x['k'] == 'Literal' and x.get('lit') == 'ByteStr' for x in walk(b['expr'])) and \
            any(st['k'] == 'Let' and st.get('init') is not None and peel(st['init'])['k'] == 'Tuple' for st in b['stmts'])
    def ev_str(e, env):
        e = peel(e)
        k_ = e['k']
        if k_ == 'Literal' and e.get('lit') == 'Str': return e['value']
        if k_ == 'Literal' and e.get('lit') == 'Char': return e['value'] if isinstance(e['value'], str) else chr(int(e['value']))
        if k_ in ('VarRef', 'UpvarRef'):
            v = env.get(e['var'])
            if isinstance(v, str): return v
            if isinstance(v, list) and v and v[0] == 'cell': return v[1]          # a line under construction (`let mut line = String::from("|")`)
            raise _RowUndec('text of %s' % e['var'].split('#')[0])
        if k_ == 'Match' and root_var(e['scrutinee']) == result_p: return '\u00abR\u00bb'
        if k_ == 'Block':
            if is_fmt_block(e): return fmt(e, env)
            env = dict(env)
            for st in e['stmts']:
                if st['k'] == 'Let' and st.get('init') is not None:
                    q = unwrap_pat(st['pat'])
                    if q['k'] == 'Binding':
                        for f_ in (ev_str, ev_list):
                            try: env[q['var']] = f_(st['init'], env); break
                            except _RowUndec: pass
                # padding statements (`padded.extend(repeat(' ').take(missing))`) do not change the pieces
            if e.get('expr') is None: raise _RowUndec('block without a value')
            return ev_str(e['expr'], env)
        if k_ == 'Call':
            cn = (callee_name(e) or '').split('::')[-1]
            if cn == 'join' and len(e['args']) == 2: return ev_str(e['args'][1], env).join(ev_list(e['args'][0], env))
            if cn in ('format',) and e['args']: return ev_str(e['args'][0], env)
            if cn in ('concat',) and e['args']: return ''.join(ev_list(e['args'][0], env))
            if cn in TRANSP and e['args']: return ev_str(e['args'][0], env)
            if cn == 'from_str' and e['args']: return ev_str(e['args'][0], env)
        raise _RowUndec('text construct %s: %s' % (k_, pp(e)[:40]))
    def ev_list(e, env):
        e = peel(e)
        if e['k'] in ('VarRef', 'UpvarRef'):
            if e['var'] == labels_p: return list(LAB)
            v = env.get(e['var'])
            if isinstance(v, list): return v
            raise _RowUndec('list %s' % e['var'].split('#')[0])
        if e['k'] == 'Call':
            cn = (callee_name(e) or '').split('::')[-1]
            if cn == 'enumerate': return [('pair', None, x) for x in ev_list(e['args'][0], env)]
            if cn == 'chain' and len(e['args']) == 2: return ev_list(e['args'][0], env) + ev_list(e['args'][1], env)
            if cn == 'once' and len(e['args']) == 1 and (callee_name(e) or '').startswith(('std::iter::once', 'core::iter::once', 'std::iter::sources::once')): return [ev_str(e['args'][0], env)]
            if cn == 'map' and len(e['args']) == 2 and peel(e['args'][1])['k'] == 'ZstLiteral' and 'fn' in peel(e['args'][1]) and \
                    canon(peel(e['args'][1])['fn'].get('def') or '').split('::')[-1] in TRANSP:
                return ev_list(e['args'][0], env)           # .map(ToString::to_string): the same pieces
            if cn == 'zip': return [('pair', x, None) for x in ev_list(e['args'][0], env)]
            if cn == 'map' and len(e['args']) == 2:
                cl = peel(e['args'][1])
                ct = binc.ithir.get(canon(cl['def'])) if cl['k'] == 'Closure' else None
                if ct is None or len(ct['params']) != 2: raise _RowUndec('map closure')
                out = []
                for it in ev_list(e['args'][0], env):
                    env2 = dict(env); bind(ct['params'][1]['pat'], it, env2)
                    out.append(ev_str(ct['body'], env2))
                return out
            if cn in TRANSP and e['args']: return ev_list(e['args'][0], env)
        raise _RowUndec('list construct %s' % pp(e)[:40])
    def bind(p, v, env):
        p = unwrap_pat(p)
        if p['k'] == 'Binding': env[p['var']] = v if not (isinstance(v, tuple) and v[0] == 'pair') else v
        elif p['k'] == 'Leaf' and 'adt' not in p and isinstance(v, tuple) and v[0] == 'pair':
            for sp in p['subs']:
                comp = v[1 + sp['field']]
                if comp is not None: bind(sp['pat'], comp, env)
        elif p['k'] != 'Wild': raise _RowUndec('pattern')
    out = []
    def run(e, env):
        e0 = e
        while e['k'] in ('Use', 'NeverToAny'): e = e['source']
        k_ = e['k']
        if k_ == 'Block':
            env = dict(env)
            for st in e['stmts']:
                if st['k'] == 'Let':
                    if st.get('init') is None: continue
                    q = unwrap_pat(st['pat'])
                    if q['k'] == 'Binding':
                        for f_ in (ev_str, ev_list):
                            try: env[q['var']] = f_(st['init'], env); break
                            except _RowUndec: pass
                        if q.get('mutable') and isinstance(env.get(q['var']), str): env[q['var']] = ['cell', env[q['var']]]      # appended to below, also inside loops
                        if q.get('mutable') and q['var'] not in env:
                            i0_ = peel(st['init'])
                            if i0_['k'] == 'Call' and (callee_name(i0_) or '') in ('std::string::String::new', 'std::string::String::with_capacity'): env[q['var']] = ['cell', '']
                else: run(st['expr'], env)
            if e.get('expr') is not None: run(e['expr'], env)
            return
        if k_ == 'Match' and 'TryDesugar' in str(e.get('source')):
            sc = peel(e['scrutinee'])
            if sc['k'] == 'Call' and sc['args']: run(sc['args'][0], env)
            return
        if k_ == 'Match' and e.get('source') == 'ForLoopDesugar':
            sc = peel(e['scrutinee'])
            items = ev_list(sc['args'][0], env)
            pat = body = None
            for m_ in walk(e['arms'][0]['body']):
                if m_['k'] == 'Match' and m_.get('source') == 'ForLoopDesugar':
                    for a_ in m_['arms']:
                        p_ = unwrap_pat(a_['pat'])
                        if p_['k'] == 'Variant' and p_['variant'] == 'Some' and p_['subs']: pat, body = p_['subs'][0]['pat'], a_['body']
                    break
            if body is None: raise _RowUndec('loop')
            for it in items:
                env2 = dict(env); bind(pat, it, env2); run(body, env2)
            return
        if k_ == 'Call':
            cn = callee_name(e) or ''
            if cn == 'std::io::_print' or cn.endswith('write_fmt'):
                out.append(ev_str(e['args'][-1], env)); return
            if cn.endswith('Result::unwrap') or cn.endswith('Result::expect'):
                run(e['args'][0], env); return
            if cn in ('std::string::String::push_str', 'std::string::String::push') and len(e['args']) == 2:
                cell = env.get(root_var(e['args'][0]))
                if isinstance(cell, list) and cell and cell[0] == 'cell': cell[1] += ev_str(e['args'][1], env); return
                raise _RowUndec('text appended to %s' % pp(e['args'][0])[:30])
            return
        if k_ in ('Tuple', 'Assign', 'AssignOp', 'Adt', 'Literal'): return
        if k_ == 'If' or k_ == 'Loop' or k_ == 'Match': raise _RowUndec('control flow %s in the row printer' % k_)
    run(t['body'], {})
    return ''.join(out)

def rule_whole_sequences(F, R, which):
    """the functions that list things list all of them: the node / edge walkers of the two exporters, `node_list`, `extract_vars` and the -r
    listing of main build their results from whole sequences - no `skip`, `take`, `step_by`, `skip_while`, `take_while`, `nth`, `last` anywhere in
    them (an element dropped from one of these lists is a node missing from the export, a variable missing from the ordering)"""
    lib, binc = F.lib(), F.bin()
    FORBID = ('skip', 'take', 'step_by', 'skip_while', 'take_while', 'nth', 'last')          # iterator adaptors only: a work stack (`pending.pop()`) is how an iterative walker is written
    groups = {
        'dot': (lib, lambda n: n.startswith('rsbdd::bdd_io::BDDGraph::') or 'bdd_io::BDDGraph' in n and 'GraphWalk' in n),
        'parsetree': (lib, lambda n: n.startswith('rsbdd::parser_io::SymbolicParseTree::') or 'parser_io::SymbolicParseTree' in n and 'GraphWalk' in n),
        'node_list': (lib, lambda n: n.startswith('rsbdd::bdd::BDD::node_list') or n.startswith('rsbdd::bdd::BDDEnv::node_list') or n.startswith('rsbdd::bdd::BDDEnv::duplicates') or n.startswith('rsbdd::bdd::BDDEnv::size')),
        'vars': (lib, lambda n: n.startswith('rsbdd::parser::ParsedFormula::extract_vars')),
    }
    n = 0
    for g in which:
        if g == 'ordering':
            # the -r block of main: the statements under `if args.export_ordering`
            main = binc.ithir.get('rsbdd::main') if binc else None
            if main is None: continue
            for e in walk(main['body']):
                if e['k'] == 'If' and 'export_ordering' in [x.get('field_name') for x in walk(e['cond']) if x['k'] == 'Field']:
                    n += 1
                    bad = [x for x in walk(e['then']) if x['k'] == 'Call' and (callee_name(x) or '').split('::')[-1] in FORBID]
                    for x_ in list(walk(e['then'])):
                        if x_['k'] == 'Closure' and canon(x_['def']) in binc.ithir: bad += [y for y in walk(binc.ithir[canon(x_['def'])]['body']) if y['k'] == 'Call' and (callee_name(y) or '').split('::')[-1] in FORBID]
                    R.obligation(not bad, 'whole sequences -r')
                    for x in bad: R.violation('rsbdd::main / X4 / -r lists every variable', 'X4', 'the ordering export passes its list through `%s`: a variable is missing from the output' % (callee_name(x) or '').split('::')[-1], x.get('loc'))
            continue
        crate, pred = groups[g]
        for name, t in sorted(crate.ithir.items()):
            if not pred(name) or '@inl' in name: continue
            n += 1
            bad = [x for x in walk(t['body']) if x['k'] == 'Call' and (callee_name(x) or '').split('::')[-1] in FORBID]
            R.obligation(not bad, 'whole sequences ' + name)
            for x in bad:
                R.violation('%s / X7 / whole sequences' % name.split('::{closure')[0], 'X7', '%s passes a sequence through `%s`: an element is dropped from a list that must be complete' % (name.split('::{closure')[0].split('::')[-1], (callee_name(x) or '').split('::')[-1]), x.get('loc'))
    R.count('X7:whole-sequence-functions', n)

def rule_X4_flags(F, R):
    """each kind of output is produced when, and only when, it is asked for: in main the table printer runs under args.truthtable, the
    listing under args.vars, the ordering export under args.export_ordering (value provenance of the path conditions)"""
    import flow as _flow
    binc = F.bin()
    main = binc.ithir.get('rsbdd::main') if binc else None
    if main is None:
        R.violation('rsbdd::main / X4 / anchor', 'UNDECIDABLE', 'main not found'); return
    fl = _flow.Flow(binc, max_depth=0)
    WANT = {'rsbdd::print_truth_table_recursive': 'truthtable', 'rsbdd::print_true_vars_recursive': 'vars'}
    found = []
    _flow.scan(fl, main['body'], {}, lambda x: x.get('k') == 'Call' and callee_name(x) in WANT, found)
    for node, env in found:
        flag = WANT[callee_name(node)]
        ok = any(pol and isinstance(c_, tuple) and c_ and c_[0] == 'field' and c_[2] == flag for c_, pol in env.get('#conds', ()))
        R.count('X4:printer-flags'); R.obligation(ok, 'X4 flag %s' % flag)
        if not ok: R.violation('rsbdd::main / X4 / %s only on request' % flag, 'X4', '%s must run exactly under --%s; the call is reached under %s' % (
            callee_name(node).split('::')[-1], flag, [(_flow.show(c_)[:40], pol) for c_, pol in env.get('#conds', ())][:4]), node.get('loc'))
    if not found: R.violation('rsbdd::main / X4 / printers / VACUITY', 'VACUITY', 'no call of the table / listing printers found in main')

def rule_X4_header_call(F, R):
    """C10: the table comes with its header: wherever main reaches the table printer, print_header was called before it on the same path
    (in the same block or an enclosing one)"""
    binc = F.bin()
    main = binc.ithir.get('rsbdd::main') if binc else None
    if main is None or binc.ithir.get('rsbdd::print_header') is None:
        R.count('X4:header-call'); return
    def calls(x, name): return x is not None and any(y['k'] == 'Call' and callee_name(y) == name for y in walk(x))
    def visit(b, seen):
        """statements of a block in order; `seen`: print_header was called earlier on this path"""
        while b['k'] in ('Use', 'NeverToAny'): b = b['source']
        if b['k'] != 'Block':
            if calls(b, 'rsbdd::print_truth_table_recursive'): judge(b, seen)
            return
        for st in stmts_in_order(b):
            x = st.get('expr') if st['k'] == 'Expr' else st.get('init')
            if x is None: continue
            if calls(x, 'rsbdd::print_truth_table_recursive'):
                inner = [y for y in walk(x) if y['k'] == 'Block' and y is not x and calls(y, 'rsbdd::print_truth_table_recursive')]
                y0 = x
                while y0['k'] in ('Use', 'NeverToAny'): y0 = y0['source']
                if y0['k'] == 'Block': visit(y0, seen)
                elif y0['k'] == 'If':
                    visit(y0['then'], seen)
                    if y0.get('else') is not None: visit(y0['else'], seen)
                elif inner: visit(inner[0], seen)
                else: judge(x, seen)
            if calls(x, 'rsbdd::print_header'): seen = True
    def judge(x, seen):
        R.count('X4:header-call'); R.obligation(seen, 'X4 header call')
        if not seen: R.violation('rsbdd::main / X4 / header of the table', 'X4', 'the table printer is reached without print_header having been called before it', x.get('loc'))
    visit(main['body'], False)

def rule_X12_outcome(F, R):
    """C10: the result column says what the row's leaf is: where the row printer turns the leaf into text, True reads `True` and False `False`"""
    binc = F.bin()
    t = binc.ithir.get('rsbdd::print_sized_line')
    if t is None:
        R.count('X12:outcome-text'); return
    shown = {}
    for m_ in walk(t['body']):
        if m_['k'] != 'Match': continue
        for a_ in m_['arms']:
            q_ = unwrap_pat(a_['pat'])
            if q_['k'] == 'Variant' and canon(q_.get('adt', '')) == BDD and q_['variant'] in ('True', 'False'):
                lits = [x['value'] for x in walk(a_['body']) if x['k'] == 'Literal' and x.get('lit') == 'Str']
                if lits: shown[q_['variant']] = lits
    ok = True
    if shown: ok = shown.get('True') == ['True'] and shown.get('False') == ['False']
    R.count('X12:outcome-text'); R.obligation(ok, 'X12 outcome text')
    if not ok: R.violation('rsbdd::print_sized_line / X12 / result column', 'X12', 'the result column must read True for the true leaf and False for the false leaf; found %s' % shown, t['span']['loc'])

def rule_X12_header(F, R):
    """C10: the header names the columns: print_header walks its labels and writes each one to standard output (a header whose loop no
    longer prints the label leaves the table without column names)"""
    import engine_l as _el
    binc = F.bin()
    t = binc.ithir.get('rsbdd::print_header')
    if t is None:
        import facts as _facts
        if _facts.baseline_private('rsbdd::print_header'): R.count('X12:header-printer-gone'); return
        R.violation('rsbdd::print_header / X12 / anchor', 'UNDECIDABLE', 'print_header not found'); return
    lp = unwrap_pat(t['params'][0]['pat']).get('var') if t['params'] and 'pat' in t['params'][0] else None
    ok = False
    for (it, pat, body) in _el.for_loops(t['body']):
        src = strip(it)
        while src['k'] == 'Call' and src['args'] and (callee_name(src) or '').split('::')[-1] in ('iter', 'into_iter', 'zip', 'enumerate', 'by_ref', 'cloned', 'copied'): src = strip(src['args'][0])
        if root_var(src) != lp: continue
        pvs = set(walk_pat_bindings(pat))
        for x in walk(body):
            if is_stdout_write(x) and any(y['k'] in ('VarRef', 'UpvarRef') and y['var'] in pvs for y in walk(x)): ok = True
        # a line assembled first and printed after the loop: the label reaches a String that is printed
        if not ok:
            pushed = set(root_var(x['args'][0]) for x in walk(body) if x['k'] == 'Call' and (callee_name(x) or '') in ('std::string::String::push_str', 'std::vec::Vec::push') and
                         any(y['k'] in ('VarRef', 'UpvarRef') and y['var'] in pvs for y in walk(x['args'][1])))
            ok = any(is_stdout_write(x) and any(y['k'] in ('VarRef', 'UpvarRef') and y['var'] in pushed for y in walk(x)) for x in walk(t['body']))
    if not ok:
        # iterator forms: labels.iter().map(|l| format!(.. l ..)).collect / for_each(|l| print!(..))
        for x in walk(t['body']):
            if x['k'] == 'Call' and callee_decl(x) in ('std::iter::Iterator::map', 'std::iter::Iterator::for_each') and len(x['args']) == 2:
                src = strip(x['args'][0])
                while src['k'] == 'Call' and src['args'] and (callee_name(src) or '').split('::')[-1] in ('iter', 'into_iter', 'zip', 'enumerate', 'by_ref', 'cloned', 'copied'): src = strip(src['args'][0])
                if root_var(src) == lp: ok = True
    R.count('X12:header-labels'); R.obligation(ok, 'X12 header labels')
    if not ok: R.violation('rsbdd::print_header / X12 / column names', 'X12', 'the header must write every label it is given: no write to standard output mentions the label of the loop over the labels', t['span']['loc'])

def rule_X12(F, R):
    """C10: a table row has one cell per column of the header - `|`, then ` cell |` for every free variable, then ` result |` - for every
    number of free variables, zero included (a formula without free variables prints `| True  |`, not `|  | True  |`)"""
    binc = F.bin()
    t = binc.ithir.get('rsbdd::print_sized_line')
    if t is None:
        import facts as _facts
        if _facts.baseline_private('rsbdd::print_sized_line'):
            R.count('X12:row-printer-gone'); return          # the row printer was folded into its caller: not read (the caller's layout is not a rule instance)
        R.violation('rsbdd::print_sized_line / X12 / anchor', 'UNDECIDABLE', 'print_sized_line not found'); return
    for k in (0, 1, 2, 3):
        want = '|' + ''.join(' \u00abL%d\u00bb |' % i for i in range(k)) + ' \u00abR\u00bb |\n'
        try:
            got = row_text(binc, t, k)
            ok = got == want; why = 'a row of %d cell(s) is written as %r, expected %r' % (k, got, want)
        except _RowUndec as u:
            ok = False; why = 'cannot read how a row is written: %s' % u
        R.count('X12:row-layouts'); R.obligation(ok, 'X12 row %d' % k)
        if not ok:
            R.violation('rsbdd::print_sized_line / X12 / row of %d cells' % k, 'X12' if 'cannot read' not in why else 'UNDECIDABLE', why, t['span']['loc'] if 'span' in t else None)
            break

# ------------------------------------------------------------------------------------------------ X10 node labels of the parse tree
REF_NODE_LABELS = {'BinaryOp': '{0:?}', 'Quantifier': '{0:?} [{1}]', 'Not': 'Not', 'CountableConst': '{0:?} {2}', 'CountableVariable': '{0:?}',
                   'FixedPoint': {True: 'GFP {0}', False: 'LFP {0}'}, 'Ite': 'Ite', 'False': 'False', 'True': 'True', 'Var': 'Var {0}', 'Subtree': 'BDD', 'Reference': 'Ref {0}'}

def label_text(lib, e, env, fields):
    """the text an expression renders to, holes named by the field of the syntax node they show (`{0}`, `{1:?}`); env: local name -> text
    or ('bool', b) for the flag the label depends on.  Raises PredUndec for anything else."""
    import engine_u
    def rec(e, env):
        while e['k'] in ('Use', 'Borrow', 'Deref', 'NeverToAny', 'PointerCoercion'): e = e.get('source') or e.get('arg')
        k = e['k']
        if k == 'Literal' and e.get('lit') == 'Str': return e['value']
        if k in ('VarRef', 'UpvarRef'):
            if e['var'] in env and isinstance(env[e['var']], str): return env[e['var']]
            if e['var'] in fields: return '{%d}' % fields[e['var']]
            raise PredUndec('label uses %s' % e['var'].split('#')[0])
        if k == 'Adt' and canon(e['adt']).endswith('LabelText') and e['fields']: return rec(e['fields'][0]['expr'], env)
        if k == 'Block':
            env = dict(env)
            for st in e['stmts']:
                if st['k'] == 'Let' and st.get('init') is not None and st['init'].get('exp') is None:
                    q = unwrap_pat(st['pat'])
                    if q['k'] == 'Binding':
                        try: env[q['var']] = rec(st['init'], env)
                        except PredUndec: pass
            if e.get('expr') is None: raise PredUndec('block without a value')
            return rec(e['expr'], env)
        if k == 'If' and e['cond']['k'] != 'Let' and e.get('else') is not None:
            return rec(e['then'] if flag(e['cond'], env) else e['else'], env)
        if k == 'Match' and e.get('source') in (None, 'Normal'):
            b = flag(e['scrutinee'], env)
            for a in e['arms']:
                q = unwrap_pat(a['pat'])
                if q['k'] == 'Wild' or (q['k'] == 'Binding' and not q.get('sub')): return rec(a['body'], env)
                if q['k'] == 'Constant':
                    cv = str(q.get('value'))
                    if (('true' in cv or '0x01' in cv) and b) or (('false' in cv or '0x00' in cv) and not b): return rec(a['body'], env)
            raise PredUndec('no arm for the flag')
        if k == 'Index' or (k == 'Call' and (callee_decl(e) or '') == 'std::ops::Index::index'):
            base, ix = (e['lhs'], e['index']) if k == 'Index' else (e['args'][0], e['args'][1])
            while base['k'] in ('Use', 'Borrow', 'Deref', 'NeverToAny', 'PointerCoercion'): base = base.get('source') or base.get('arg')
            if base['k'] != 'Array': raise PredUndec('label picked from something other than a spelt-out array')
            ixs = strip(ix)
            while ixs['k'] == 'Cast' or (ixs['k'] == 'Call' and (callee_decl(ixs) or '') in ('std::convert::From::from', 'std::convert::Into::into')): ixs = strip(ixs['source'] if ixs['k'] == 'Cast' else ixs['args'][0])
            i = 1 if flag(ixs, env) else 0            # usize::from(bool) / `as usize`: false -> 0, true -> 1
            if i >= len(base['fields']): raise PredUndec('index beyond the array')
            return rec(base['fields'][i], env)
        if k == 'Call':
            cn = callee_name(e) or ''; dn = callee_decl(e) or ''
            fa = [b for b in walk(e) if b['k'] == 'Block' and 'format_args' in str(b.get('exp')) and b['stmts']]
            if (cn.endswith('fmt::format') or cn.endswith('::must_use')) and fa:
                b = fa[0]
                tup = None; wr = None
                for st in b['stmts']:
                    i0 = strip(st['init']) if st['k'] == 'Let' and st.get('init') is not None else None
                    if i0 is not None and i0['k'] == 'Tuple' and tup is None: tup = i0['fields']
                    elif i0 is not None and i0['k'] == 'Array' and wr is None: wr = i0['fields']
                tm = [x for x in walk(b) if x['k'] == 'Literal' and x.get('lit') == 'ByteStr']
                if not tm: raise PredUndec('format without a template')
                text = engine_u.decode_template(tm[0]['value'])
                parts = text.split('{}')
                if len(parts) == 1: return text
                if tup is None or wr is None or len(wr) != len(parts) - 1: raise PredUndec('format arguments')
                out = parts[0]
                for w, nxt in zip(wr, parts[1:]):
                    w0 = strip(w)
                    kind = (callee_name(w0) or '').split('::')[-1]
                    fld = [x for x in walk(w0) if x['k'] == 'Field']
                    if not fld or fld[0]['field'] >= len(tup): raise PredUndec('format argument')
                    arg = tup[fld[0]['field']]
                    try:
                        r = rec(arg, env)
                    except PredUndec:
                        rv = root_var(arg)
                        roots = [x['var'] for x in walk(arg) if x['k'] in ('VarRef', 'UpvarRef') and x['var'] in fields]
                        if rv in fields: r = '{%d}' % fields[rv]
                        elif len(set(roots)) == 1: r = '{%d}' % fields[roots[0]]          # an expression over one field (the joined names of a list)
                        else: raise
                    if kind == 'new_debug' and r.startswith('{') and r.endswith('}'): r = r[:-1] + ':?}'
                    elif kind not in ('new_display', 'new_debug'): raise PredUndec('format directive %s' % kind)
                    out += r + nxt
                return out
            if cn.endswith('LabelText::label') or cn.endswith('LabelText::LabelStr') or dn in ('std::string::ToString::to_string', 'std::convert::From::from', 'std::convert::Into::into', 'std::borrow::ToOwned::to_owned', 'std::clone::Clone::clone') \
                    or cn in ('std::string::String::from', 'core::str::<impl str>::to_string', 'std::string::String::as_str'):
                return rec(e['args'][0], env)
        raise PredUndec('label construct %s: %s' % (k, pp(e)[:50]))
    def flag(c, env):
        c = strip(c)
        neg = False
        while c['k'] == 'Unary' and c['op'] == 'Not': c = strip(c['arg']); neg = not neg
        if c['k'] in ('VarRef', 'UpvarRef') and isinstance(env.get(c['var']), tuple) and env[c['var']][0] == 'bool': return env[c['var']][1] != neg
        if c['k'] == 'Literal' and isinstance(c.get('value'), bool): return c['value'] != neg
        raise PredUndec('the label depends on %s' % pp(c)[:40])
    return rec(e, env)

def rule_X10(F, R):
    """the label of each parse-tree node names the construct: the text per node kind equals the documented labelling (a GFP node is
    labelled GFP, the counting operators and the quantifier show their kind, constants are True / False, ..)"""
    lib = F.lib()
    tl = [k for k in lib.ithir if k.endswith('Labeller>::node_label') and 'SymbolicParseTree' in k]
    if not tl:
        R.violation('rsbdd::parser_io / X10 / anchor', 'UNDECIDABLE', 'node_label of the parse-tree exporter not found'); return
    t = lib.ithir[tl[0]]
    seen = set()
    for m in walk(t['body']):
        if m['k'] != 'Match' or not any(arm_variant_bindings(a) for a in m['arms']): continue
        for a in m['arms']:
            for variant, binds in arm_variant_bindings(a).items():
                want = REF_NODE_LABELS.get(variant)
                fields = {v: i for i, v in binds.items()}
                cases = [(None, want)] if not isinstance(want, dict) else [(b_, want[b_]) for b_ in (True, False)]
                for b_, w in cases:
                    env = {}
                    if b_ is not None:
                        flagvar = binds.get(1)
                        if flagvar is None:
                            R.violation('rsbdd::parser_io::SymbolicParseTree / X10 / %s' % variant, 'X10', 'the label of a fixed point does not look at its kind (least / greatest)', a['body'].get('loc')); continue
                        env[flagvar] = ('bool', b_)
                        fields = {v: i for v, i in fields.items() if v != flagvar}
                    try:
                        got = label_text(lib, a['body'], env, fields)
                        ok = got == w; why = 'label %r, documented %r' % (got, w)
                    except PredUndec as u:
                        ok = False; why = 'cannot read the label: %s' % u
                    R.count('X10:node-label-cases'); R.obligation(ok, 'X10 %s %s' % (variant, b_))
                    if not ok: R.violation('rsbdd::parser_io::SymbolicParseTree / X10 / label of %s%s' % (variant, '' if b_ is None else (' (greatest)' if b_ else ' (least)')), 'X10' if 'cannot read' not in why else 'UNDECIDABLE', why, a['body'].get('loc'))
                seen.add(variant)
        break
    missing = sorted(set(REF_NODE_LABELS) - seen)
    if missing: R.violation('rsbdd::parser_io::SymbolicParseTree / X10 / VACUITY', 'VACUITY', 'no label arm found for %s' % missing)

# ------------------------------------------------------------------------------------------------ X8 output files
def rule_X8(F, R, crate_name, kind=None):
    """the emitted file is exactly the emitted text: every file a binary opens for writing is created truncating (File::create, or
    OpenOptions with truncate(true)) - opened without truncation an existing longer file keeps its old tail after the new text"""
    c = F.crate(crate_name, kind) if kind else F.crate(crate_name)
    if c is None:
        R.violation('%s / X8 / anchor' % crate_name, 'UNDECIDABLE', 'crate %s not found' % crate_name); return
    n = 0
    for name, t in c.ithir.items():
        if '<Args as clap::' in name or '@inl' in name: continue
        for e in walk(t['body']):
            if e['k'] == 'ZstLiteral' and canon((e.get('fn') or {}).get('res') or (e.get('fn') or {}).get('def') or '') == 'std::fs::File::create' and \
                    not any(x['k'] == 'Call' and x.get('fun') is e for x in walk(t['body'])):
                # the function handed on as a value (`output.map(File::create)`): whoever calls it creates the file truncating
                n += 1; R.count('X8:output-files'); R.obligation(True, 'X8 create %s' % e['loc']); continue
            if e['k'] != 'Call': continue
            cn = callee_name(e) or ''
            if cn == 'std::fs::File::create':
                n += 1; R.count('X8:output-files'); R.obligation(True, 'X8 create %s' % e['loc'])
            elif cn in ('std::fs::OpenOptions::open',) or cn.endswith('OpenOptions::open'):
                # look at the builder chain this open() is applied to
                chain = []
                x = e
                while x['k'] == 'Call' and x['args']:
                    chain.append(((callee_name(x) or '').split('::')[-1], x)); x = strip(x['args'][0])
                names = [m for m, _ in chain]
                def flag(method):
                    for m, node in chain:
                        if m == method and len(node['args']) == 2:
                            v = strip(node['args'][1])
                            return v.get('value') if v['k'] == 'Literal' else None
                    return False
                writes = flag('write') is True or flag('append') is True or flag('create') is True or flag('create_new') is True
                if not writes: continue          # opened for reading
                n += 1
                ok = flag('truncate') is True or flag('create_new') is True
                R.count('X8:output-files'); R.obligation(ok, 'X8 open %s' % e['loc'])
                if not ok:
                    R.violation('%s / X8 / output file opened without truncation' % name.split('::{closure')[0], 'X8',
                                'a file opened for writing with %s keeps the tail of an existing longer file: the result is not the emitted text alone' % '.'.join(reversed(names)), e['loc'])
    if n == 0:
        R.violation('%s / X8 / VACUITY' % crate_name, 'VACUITY', 'no output file creation found in %s' % crate_name)

def rule_X8_writer_choice(F, R, crate_name):
    """the formula goes to the OUTPUT file when one is named and to standard output otherwise: the writer that main formats into is, by
    value provenance, `output ? file(output) : stdout` - not the other way round (an inverted test sends the default run into the error
    branch and a run with OUTPUT to the terminal).  Shapes the evaluator does not read are left alone (this clause only reports a choice it
    can see is wrong)."""
    import flow as _flow
    c = F.crate(crate_name)
    t = c.ithir.get(crate_name + '::main') if c else None
    if t is None:
        R.violation('%s::main / X8 / anchor' % crate_name, 'UNDECIDABLE', 'main not found'); return
    fl = _flow.Flow(c, max_depth=0)
    uses = {}
    for e in walk(t['body']):
        if e['k'] == 'Call' and (callee_name(e) or '').endswith('write_fmt') and e['args']:
            v = root_var(e['args'][0])
            if v: uses[v] = uses.get(v, 0) + 1
    wv = max(uses, key=uses.get) if uses else None
    term = None
    if wv is not None:
        lets = []
        _flow.scan(fl, t['body'], {}, lambda x: False, [])
        for b in walk(t['body']):
            if b['k'] != 'Block': continue
            for st in b['stmts']:
                if st['k'] == 'Let' and st.get('init') is not None and unwrap_pat(st['pat']).get('var') == wv: lets.append(st)
        if len(lets) == 1:
            found = []
            _flow.scan(fl, t['body'], {}, lambda x: x is lets[0]['init'], found)
            if found: term = fl.ev(lets[0]['init'], found[0][1])
    def has(tm, names):
        if isinstance(tm, tuple):
            if tm and tm[0] == 'call' and any(tm[1].endswith(n_) for n_ in names): return True
            return any(has(y, names) for y in tm)
        return False
    FILE = ('fs::File::create', 'OpenOptions::open', 'fs::File::create_new'); OUT = ('io::stdout', 'io::stdio::stdout')
    def is_output(tm):
        return isinstance(tm, tuple) and tm and tm[0] == 'field' and tm[2] == 'output'
    verdict = None      # True right, False wrong, None not read
    if term is not None and term[0] == 'optcase' and is_output(term[1]):
        a_, b_ = term[3], term[4]
        if has(a_, FILE) and not has(a_, OUT) and has(b_, OUT) and not has(b_, FILE): verdict = True
        elif has(a_, OUT) and not has(a_, FILE) and has(b_, FILE) and not has(b_, OUT): verdict = False
    elif term is not None and term[0] == 'ite':
        cnd, a_, b_ = term[1], term[2], term[3]
        neg = False
        while isinstance(cnd, tuple) and cnd and cnd[0] == 'un' and cnd[1] == 'Not': cnd = cnd[2]; neg = not neg
        if isinstance(cnd, tuple) and cnd and cnd[0] == 'call' and cnd[1].split('::')[-1] in ('is_some', 'is_none') and len(cnd[2]) == 1 and is_output(cnd[2][0]):
            some = (cnd[1].split('::')[-1] == 'is_some') != neg
            file_then = has(a_, FILE) and not has(a_, OUT) and has(b_, OUT) and not has(b_, FILE)
            out_then = has(a_, OUT) and not has(a_, FILE) and has(b_, FILE) and not has(b_, OUT)
            if file_then or out_then: verdict = (file_then == some)
    R.count('X8:writer-choice'); R.obligation(verdict is not False, 'X8 writer choice ' + crate_name)
    if verdict is False:
        R.violation('%s::main / X8 / output destination' % crate_name, 'X8', 'the formula must be written to the OUTPUT file when one is named and to standard output otherwise; the writer is %s' % _flow.show(term)[:160], t['span']['loc'])

def rule_X8_reader_choice(F, R, crate_name, field='input'):
    """the input is the INPUT file when one is named and standard input otherwise: any local of main whose value is, by provenance,
    a choice on that option between `File::open(..)` and `stdin()` makes it in this direction (same reading as the writer clause: only a
    choice that can be seen to be inverted is reported)"""
    import flow as _flow
    c = F.crate(crate_name) if crate_name != 'rsbdd' else F.bin()
    t = c.ithir.get(crate_name + '::main') if c else None
    if t is None:
        R.violation('%s::main / X8 / anchor' % crate_name, 'UNDECIDABLE', 'main not found'); return
    fl = _flow.Flow(c, max_depth=0)
    def has(tm, names):
        if isinstance(tm, tuple):
            if tm and tm[0] == 'call' and any(tm[1].endswith(n_) for n_ in names): return True
            return any(has(y, names) for y in tm)
        return False
    FILE = ('fs::File::open', 'fs::read_to_string', 'OpenOptions::open'); STD = ('io::stdin', 'io::stdio::stdin')
    def is_field(tm): return isinstance(tm, tuple) and tm and tm[0] == 'field' and tm[2] == field
    lets = []
    _flow.scan(fl, t['body'], {}, lambda x: False, [])
    cands = []
    for b in walk(t['body']):
        if b['k'] != 'Block': continue
        for st in b['stmts']:
            if st['k'] == 'Let' and st.get('init') is not None and any(x['k'] == 'Call' and (callee_name(x) or '').endswith(STD) for x in walk(st['init'])): cands.append(st)
    wrong = []; n = 0
    for st in cands:
        found = []
        _flow.scan(fl, t['body'], {}, lambda x: x is st['init'], found)
        if not found: continue
        term = fl.ev(st['init'], found[0][1])
        verdict = None
        if term[0] == 'optcase' and is_field(term[1]):
            a_, b_ = term[3], term[4]
            if has(a_, FILE) and not has(a_, STD) and has(b_, STD) and not has(b_, FILE): verdict = True
            elif has(a_, STD) and not has(a_, FILE) and has(b_, FILE) and not has(b_, STD): verdict = False
        elif term[0] == 'ite':
            cnd, a_, b_ = term[1], term[2], term[3]
            neg = False
            while isinstance(cnd, tuple) and cnd and cnd[0] == 'un' and cnd[1] == 'Not': cnd = cnd[2]; neg = not neg
            if isinstance(cnd, tuple) and cnd and cnd[0] == 'call' and cnd[1].split('::')[-1] in ('is_some', 'is_none') and len(cnd[2]) == 1 and is_field(cnd[2][0]):
                some = (cnd[1].split('::')[-1] == 'is_some') != neg
                file_then = has(a_, FILE) and not has(a_, STD) and has(b_, STD) and not has(b_, FILE)
                std_then = has(a_, STD) and not has(a_, FILE) and has(b_, FILE) and not has(b_, STD)
                if file_then or std_then: verdict = (file_then == some)
        if verdict is not None: n += 1
        if verdict is False: wrong.append((st, term))
    R.count('X8:reader-choice'); R.obligation(not wrong, 'X8 reader choice ' + crate_name)
    for st, term in wrong:
        R.violation('%s::main / X8 / input source' % crate_name, 'X8', 'the input must be read from the file named by %s when one is given and from standard input otherwise; found %s' % (field.upper(), _flow.show(term)[:160]), st.get('loc'))

def rule_X8_flush(F, R, crate_name):
    """what was written reaches the file, or the run fails: the buffered writer of main is flushed explicitly and the result of the flush
    is propagated (a BufWriter dropped without flush swallows the write error of a full disk or a closed pipe and the run exits 0)"""
    c = F.crate(crate_name)
    t = c.ithir.get(crate_name + '::main') if c else None
    if t is None:
        R.violation('%s::main / X8 / anchor' % crate_name, 'UNDECIDABLE', 'main not found'); return
    # every piece of text written is written or the run fails: the outcome of each write!/writeln! of main is propagated (`?`, or the function's value)
    tried_w = set()
    for e in walk(t['body']):
        if e['k'] == 'Match' and 'TryDesugar' in str(e.get('source')):
            for x in walk(e['scrutinee']): tried_w.add(id(x))
    tail_w = t['body']
    while tail_w['k'] in ('Use', 'NeverToAny'): tail_w = tail_w['source']
    if tail_w['k'] == 'Block' and tail_w.get('expr') is not None:
        for x in walk(tail_w['expr']): tried_w.add(id(x))
    for e in walk(t['body']):
        if e['k'] == 'Return' and e.get('value') is not None:
            for x in walk(e['value']): tried_w.add(id(x))
    writes_ = [e for e in walk(t['body']) if e['k'] == 'Call' and (callee_name(e) or '').endswith('write_fmt') and e['args'] and 'Stderr' not in str((e['args'][0].get('ty') or {}).get('s')) and 'String' not in str((e['args'][0].get('ty') or {}).get('s'))]
    dropped_ = [e for e in writes_ if id(e) not in tried_w]
    R.count('X8:writes-propagated', len(writes_)); R.obligation(not dropped_, 'X8 writes propagated ' + crate_name)
    for e in dropped_[:3]:
        R.violation('%s::main / X8 / outcome of a write dropped' % crate_name, 'X8', 'the outcome of a write to the output is not propagated: a failed write leaves a partial formula behind and the run goes on', e.get('loc'))
    bufs = [e for e in walk(t['body']) if e['k'] == 'Call' and (callee_name(e) or '') in ('std::io::BufWriter::new', 'std::io::BufWriter::with_capacity', 'std::io::LineWriter::new')]
    if not bufs:
        R.count('X8:flushes'); R.obligation(True, 'X8 flush (unbuffered) ' + crate_name); return
    tries = set()
    for e in walk(t['body']):
        if e['k'] == 'Call' and (callee_name(e) or '').endswith('Try>::branch') and e['args']:
            for x in walk(e['args'][0]): tries.add(id(x))
    tail = t['body']
    while tail['k'] in ('Use', 'NeverToAny'): tail = tail['source']
    tail_ids = set(id(x) for x in walk(tail['expr'])) if tail['k'] == 'Block' and tail.get('expr') is not None else set()
    flushes = [e for e in walk(t['body']) if e['k'] == 'Call' and (callee_decl(e) or '') == 'std::io::Write::flush' and (id(e) in tries or id(e) in tail_ids)]
    sts = stmts_in_order(t['body'])
    def idx_of(pred):
        return [i for i, st in enumerate(sts) if any(pred(x) for x in walk(st.get('init') if st['k'] == 'Let' else st.get('expr')) if (st.get('init') if st['k'] == 'Let' else st.get('expr')) is not None)]
    fl_i = idx_of(lambda x: any(x is f for f in flushes))
    wr_i = idx_of(lambda x: x['k'] == 'Call' and (callee_name(x) or '').endswith('write_fmt'))
    ok = bool(flushes) and bool(fl_i) and (not wr_i or max(fl_i) >= max(wr_i))
    R.count('X8:flushes', len(flushes)); R.obligation(ok, 'X8 flush ' + crate_name)
    if not ok:
        R.violation('%s::main / X8 / buffered output not flushed' % crate_name, 'X8', 'main writes through a BufWriter; after the last write it must call flush() and propagate its result (found %d propagated flush call(s))' % len(flushes), bufs[0].get('loc'))

def rule_buffered_writers(F, R, crates=(('rsbdd', 'rlib'), ('rsbdd', 'executable'))):
    """a function of the library or the CLI that wraps a writer in a BufWriter flushes it itself and hands the result on: dropped unflushed,
    the buffer's write error is lost and the caller's `?` sees success"""
    n = 0
    for cn, kind in crates:
        c = F.crate(cn, kind)
        if c is None: continue
        for name, t in sorted(c.ithir.items()):
            if '{closure' in name or '@inl' in name or '<Args as clap::' in name: continue
            bufs = [e for e in walk(t['body']) if e['k'] == 'Call' and (callee_name(e) or '') in ('std::io::BufWriter::new', 'std::io::BufWriter::with_capacity', 'std::io::LineWriter::new')]
            if not bufs: continue
            n += 1
            tries = set()
            for e in walk(t['body']):
                if e['k'] == 'Call' and (callee_name(e) or '').endswith('Try>::branch') and e['args']:
                    for x in walk(e['args'][0]): tries.add(id(x))
            tail = t['body']
            while tail['k'] in ('Use', 'NeverToAny'): tail = tail['source']
            tail_ids = set(id(x) for x in walk(tail['expr'])) if tail['k'] == 'Block' and tail.get('expr') is not None else set()
            flushes = [e for e in walk(t['body']) if e['k'] == 'Call' and ((callee_decl(e) or '') == 'std::io::Write::flush' or (callee_name(e) or '').endswith('BufWriter::into_inner')) and (id(e) in tries or id(e) in tail_ids)]
            ok = bool(flushes)
            R.count('X8:buffered-writers'); R.obligation(ok, 'X8 buffered ' + name)
            if not ok: R.violation('%s / X8 / buffered writer not flushed' % name, 'X8', 'the function writes through a BufWriter it creates but never flushes it with the result handed on: a failed write is reported as success', bufs[0].get('loc'))
    return n

def rule_no_early_return(F, R, crate_name):
    """a generator's main has one way to a successful end - through all of its output: no `return` other than the error exits of `?`"""
    c = F.crate(crate_name)
    t = c.ithir.get(crate_name + '::main') if c else None
    if t is None:
        R.violation('%s::main / early return / anchor' % crate_name, 'UNDECIDABLE', 'main not found'); return
    out = []
    def rec(x):
        if isinstance(x, list):
            for y in x: rec(y)
            return
        if not isinstance(x, dict): return
        if x.get('k') == 'Return': out.append(x); return
        if x.get('k') == 'Match' and 'TryDesugar' in str(x.get('source')): rec(x.get('scrutinee')); return
        if x.get('k') == 'Closure': return
        for k_, v in x.items():
            if isinstance(v, (dict, list)) and k_ not in ('ty', 'pat'): rec(v)
    rec(t['body'])
    R.count('early-returns:' + crate_name, len(out)); R.obligation(not out, 'no early return ' + crate_name)
    if out: R.violation('%s::main / early return' % crate_name, 'X8', 'main leaves successfully before all of its output is written on some path (the formula / graph for that input is missing or stale)', out[0].get('loc'))

def rule_X8_after_input(F, R, crate_name, producers):
    """the output file is opened (and thereby emptied) only once everything that reads input or can refuse the request has run: a
    conversion in place (`--convert g.csv -o g.csv`) reads the given list, and a refused request leaves an existing file alone"""
    c = F.crate(crate_name)
    t = c.ithir.get(crate_name + '::main') if c else None
    if t is None:
        R.violation('%s::main / X8 / anchor' % crate_name, 'UNDECIDABLE', 'main not found'); return
    sts = stmts_in_order(t['body'])
    def has(st, pred):
        e = st.get('init') if st['k'] == 'Let' else st.get('expr')
        return e is not None and any(x['k'] == 'Call' and pred(callee_name(x) or '') for x in walk(e))
    opens = [i for i, st in enumerate(sts) if has(st, lambda cn: cn == 'std::fs::File::create' or cn.endswith('OpenOptions::open'))]
    prod = [i for i, st in enumerate(sts) if has(st, lambda cn: cn == 'std::fs::File::open' or cn in producers)]
    ok = bool(opens) and bool(prod) and min(opens) > max(prod)
    R.count('X8:output-after-input'); R.obligation(ok, 'X8 order ' + crate_name)
    if not ok:
        R.violation('%s::main / X8 / output opened before the input is read' % crate_name, 'X8',
                    'the output file must be created after the input graph has been read and the request accepted (statement %s creates it, statement %s still reads / generates / may refuse)' % (min(opens) if opens else None, max(prod) if prod else None),
                    (sts[min(opens)].get('init') or sts[min(opens)].get('expr') or {}).get('loc') if opens else None)

# ------------------------------------------------------------------------------------------------ X9 what goes to stdout
def rule_X9(F, R):
    """C10: the standard output of the solver is its result and nothing else: the only functions that print to stdout are the table /
    variable printers and the -r export in main; diagnostics (benchmark progress, run-time report) go to stderr"""
    import facts as _facts
    binc = F.bin()
    if binc is None:
        R.violation('rsbdd / X9 / anchor', 'UNDECIDABLE', 'binary crate not found'); return
    ALLOWED = {'rsbdd::main', 'rsbdd::print_header', 'rsbdd::print_sized_line', 'rsbdd::print_true_vars_recursive', 'rsbdd::print_truth_table_recursive'}
    n = 0
    for name, t in binc.thir.items():
        base = name.split('::{closure')[0]
        if '<Args as clap::' in base: continue
        for e in walk(t['body']):
            if is_stdout_write(e):
                n += 1
                roots = _facts.baseline_roots(binc, base) if base not in _facts.baseline_fns() else {base}
                ok = bool(roots) and roots <= ALLOWED
                R.count('X9:stdout-writes'); R.obligation(ok, 'X9 %s %s' % (base, e['loc']))
                if not ok:
                    R.violation('%s / X9 / writes to stdout' % base, 'X9', '%s prints to stdout, which carries the result (table, variable list, ordering) and nothing else; diagnostics belong on stderr' % base.split('::')[-1], e['loc'])
    # in main, stdout is written only by the ordering export (-r)
    m = binc.ithir.get('rsbdd::main')
    if m is not None:
        for e in walk(m['body']):
            if is_stdout_write(e):
                # must sit under the export_ordering flag
                pass
        import flow
        fl = flow.Flow(binc); found = []
        flow.scan(fl, m['body'], {}, lambda x: is_stdout_write(x), found)
        for node, env in found:
            ok = any(pol and c == ('field', ('args',), 'export_ordering') for c, pol in env.get('#conds', ()))
            R.obligation(ok, 'X9 main print')
            if not ok: R.violation('rsbdd::main / X9 / print outside the ordering export', 'X9', 'main prints to stdout outside the --export-ordering block', node.get('loc'))
    if n == 0: R.violation('rsbdd / X9 / VACUITY', 'VACUITY', 'no stdout write found in the binary')

"""Engine S/O core: a summary-based abstract interpreter over type-checked THIR.

Control is concrete within a *world* (a finite set of decisions about shapes, symbol order, enum
variants, list emptiness, opaque Booleans); data is symbolic (hash-consed terms with Boolean
denotations).  All worlds of a function body are enumerated; at the end of each world the
function's specification (rules/spec_*.py) is checked by the exhaustive procedure in logic.py.
Calls to specified functions are replaced by their summaries (for self-recursive calls this is
the induction hypothesis, justified by a size-change check).  Anything the interpreter does not
understand raises Undecidable, which the property checks report as a violation (fail closed)."""

from logic import *
from facts import canon, walk, pp, pp_pat, callee_name

class Undecidable(Exception):
    def __init__(self, construct, loc='?'):
        Exception.__init__(self, '%s at %s' % (construct, loc))
        self.construct, self.loc = construct, loc

class NeedDecision(Exception):
    def __init__(self, key, alts):
        self.key, self.alts = key, alts

class Infeasible(Exception):
    pass

class Diverge(Exception):
    """panic / unreachable / unimplemented reached"""
    def __init__(self, what, loc):
        self.what, self.loc = what, loc

class BreakExc(Exception):
    pass

class LoopContinue(Exception):
    pass

class ReturnExc(Exception):
    def __init__(self, value): self.value = value

# ------------------------------------------------------------------------------------------------
# abstract values

class V:
    pass

class VBdd(V):
    def __init__(self, term): self.term = term
    def __repr__(self): return 'Bdd(%s)' % show_key(self.term)

class VSym(V):
    def __init__(self, term): self.term = term
    def __repr__(self): return 'Sym(%s)' % show_key(self.term)

class VBool(V):
    def __init__(self, t): self.t = t
    def __repr__(self): return 'Bool(%s)' % show(self.t)

class VInt(V):
    def __init__(self, lin): self.lin = lin
    def __repr__(self): return 'Int(%r)' % (self.lin,)

class VList(V):
    def __init__(self, term, elem): self.term, self.elem = term, elem
    def __repr__(self): return 'List(%s)' % show_key(self.term)

class VIter(V):
    def __init__(self, term, elem): self.term, self.elem = term, elem

class VItems(V):
    """a spelt-out sequence (`[a, b, c]`) or a chain of sequences: parts are values or iterators, in order"""
    def __init__(self, parts, spelt=True): self.parts, self.spelt = parts, spelt
    def __repr__(self): return 'Items(%d)' % len(self.parts)

class VData(V):
    """opaque value of a local enum/struct; variant decided lazily"""
    def __init__(self, adt, term): self.adt, self.term = adt, term
    def __repr__(self): return 'Data(%s:%s)' % (self.adt.split('::')[-1], show_key(self.term))

class VCons(V):
    """constructed enum/struct value"""
    def __init__(self, adt, variant, fields, names=None): self.adt, self.variant, self.fields, self.names = adt, variant, fields, names
    def __repr__(self): return '%s::%s%r' % (self.adt.split('::')[-1], self.variant, self.fields)

class VTuple(V):
    def __init__(self, items): self.items = items
    def __repr__(self): return 'Tuple%r' % (self.items,)

class VClosure(V):
    def __init__(self, name, env): self.name, self.env = name, env

class VFnItem(V):
    def __init__(self, name, decl=None): self.name, self.decl = name, decl or name

class VFnParam(V):
    def __init__(self, name): self.name = name

class VOpaque(V):
    def __init__(self, term, ty=None): self.term, self.ty = term, ty
    def __repr__(self): return 'Opaque(%s)' % show_key(self.term)

class VOption(V):
    """tag: 'none' | 'some' (value) | 'opaque' (term, inner-maker)"""
    def __init__(self, tag, value=None, term=None, mk=None): self.tag, self.value, self.term, self.mk = tag, value, term, mk

class VUnit(V):
    def __repr__(self): return 'Unit'

class VStr(V):
    def __init__(self, s): self.s = s

class VCell(V):
    """a RefCell whose content the interpreter tracks (BDDSet.bdd)"""
    def __init__(self, key): self.key = key

UNIT = VUnit()

INT_TYPES = {'i8': (-2**7, 2**7 - 1), 'i16': (-2**15, 2**15 - 1), 'i32': (-2**31, 2**31 - 1), 'i64': (-2**63, 2**63 - 1),
             'i128': (-2**127, 2**127 - 1), 'isize': (-2**63, 2**63 - 1),
             'u8': (0, 2**8 - 1), 'u16': (0, 2**16 - 1), 'u32': (0, 2**32 - 1), 'u64': (0, 2**64 - 1),
             'u128': (0, 2**128 - 1), 'usize': (0, 2**64 - 1)}

def ty_class(ty, symparams=()):
    """Map a dumped type to an abstract-value class tag."""
    k = ty['k']
    if k in ('Ref', 'RawPtr'):
        return ty_class(ty['to'], symparams)
    if k == 'Adt':
        d = canon(ty['def'])
        if d in ('std::rc::Rc', 'std::boxed::Box', 'std::cell::Ref', 'std::cell::RefMut', 'std::sync::Arc'):
            return ty_class(ty['args'][0], symparams) if ty['args'] else ('opaque',)
        if d == 'rsbdd::bdd::BDD': return ('bdd',)
        if d == 'rsbdd::symbols::NamedSymbol': return ('sym',)
        if d == 'std::vec::Vec':
            return ('list', ty_class(ty['args'][0], symparams))
        if d == 'std::option::Option':
            return ('option', ty_class(ty['args'][0], symparams))
        if d == 'std::string::String': return ('str',)
        if d.startswith('rsbdd::') or d.startswith('rsbdd_fixtures::'):
            return ('data', d)
        return ('opaque',)
    if k in ('Slice', 'Array'):
        return ('list', ty_class(ty['of'], symparams))
    if k in ('Int', 'Uint'): return ('int', ty['s'])
    if k == 'Bool': return ('bool',)
    if k == 'Tuple':
        if not ty['of']: return ('unit',)
        return ('tuple', [ty_class(t, symparams) for t in ty['of']])
    if k == 'Param':
        if ty['name'] in symparams: return ('sym',)
        return ('fnparam',)
    if k == 'Str': return ('str',)
    if k in ('Closure', 'FnDef'): return ('fn',)
    if k == 'FnPtr': return ('fnparam',)          # a function pointer parameter is an unknown function, like a generic `F: Fn(..)`
    if k == 'Never': return ('never',)
    return ('opaque',)

# ------------------------------------------------------------------------------------------------

class World:
    """Replayable decision record plus the derived facts of one run."""
    def __init__(self, decisions):
        self.dec = decisions            # dict key -> alternative (fixed prefix for this run)
        self.used = []                  # keys consumed in order
        self.shape = {}                 # bdd term -> 'F'|'T'|'C'
        self.alias = {}                 # bdd term -> representative (structural equality decided true)
        self.sym_parent = {}            # union-find over symbol terms
        self.lt = set()                 # strict order edges between class representatives
        self.neq = set()                # disequalities between classes (frozenset pairs)
        self.facts = []                 # pointwise assumptions: functions b -> boolterm
        self.notes = []

    def decide(self, key, alts):
        if key in self.dec:
            v = self.dec[key]
            if v not in alts:
                raise Infeasible()
            if key not in self.used: self.used.append(key)
            return v
        if len(alts) == 0: raise Infeasible()
        if len(alts) == 1: return alts[0]
        raise NeedDecision(key, list(alts))

    # ---- symbols: total preorder ----
    def sfind(self, s):
        p = self.sym_parent.get(s, s)
        if p == s: return s
        r = self.sfind(p)
        self.sym_parent[s] = r
        return r

    def _reach(self, a, b):
        """a < b by transitivity over strict edges (class reps)"""
        seen = set(); st = [a]
        while st:
            x = st.pop()
            for (u, v) in self.lt:
                if u == x and v not in seen:
                    if v == b: return True
                    seen.add(v); st.append(v)
        return False

    def rel(self, a, b):
        ra, rb = self.sfind(a), self.sfind(b)
        if ra == rb: return 'eq'
        if self._reach(ra, rb): return 'lt'
        if self._reach(rb, ra): return 'gt'
        return None

    def set_rel(self, a, b, r):
        ra, rb = self.sfind(a), self.sfind(b)
        cur = self.rel(a, b)
        if cur is not None:
            if cur != r: raise Infeasible()
            return
        if r == 'eq':
            if frozenset((ra, rb)) in self.neq: raise Infeasible()
            # merge rb into ra; rewrite edges
            self.sym_parent[rb] = ra
            self.lt = set(((ra if u == rb else u), (ra if v == rb else v)) for (u, v) in self.lt)
            self.neq = set(frozenset((ra if x == rb else x) for x in p) for p in self.neq)
            for (u, v) in self.lt:
                if u == v: raise Infeasible()
        elif r == 'lt':
            self.lt.add((ra, rb))
        else:
            self.lt.add((rb, ra))

    def decide_rel(self, a, b):
        r = self.rel(a, b)
        if r is not None: return r
        ra, rb = self.sfind(a), self.sfind(b)
        key = ('ord',) + tuple(sorted((ra, rb), key=repr))
        alts = ['lt', 'eq', 'gt']
        if frozenset((ra, rb)) in self.neq: alts = ['lt', 'gt']
        v = self.decide(key, alts)
        # key is on the sorted pair
        x, y = key[1], key[2]
        self.set_rel(x, y, v)
        return self.rel(a, b)

    def decide_eq(self, a, b):
        """symbol equality test only (2-way): keeps `!=` as a disequality without ordering"""
        r = self.rel(a, b)
        if r is not None: return r == 'eq'
        ra, rb = self.sfind(a), self.sfind(b)
        if frozenset((ra, rb)) in self.neq: return False
        key = ('symeq',) + tuple(sorted((ra, rb), key=repr))
        v = self.decide(key, [True, False])
        if v: self.set_rel(ra, rb, 'eq')
        else: self.neq.add(frozenset((ra, rb)))
        return v

    # ---- bdd terms ----
    def rep(self, x):
        while x in self.alias: x = self.alias[x]
        return x


def _contains(t, sub):
    if t == sub: return True
    if isinstance(t, tuple):
        return any(_contains(x, sub) for x in t if isinstance(x, tuple))
    return False

class Interp:
    """One interpreter instance per (function under analysis, world)."""
    def __init__(self, engine, world, fname, cofactor_sym=None):
        self.E = engine
        self.W = world
        self.fname = fname
        self.cof = cofactor_sym        # symbol term designated as `s` in cofactor-pair mode
        self.events = []               # casts, outputs, mk_choice obligations, recursive calls ...
        self.depth = 0
        self.cells = {}                # tracked RefCell contents
        self.reg = {}                  # closure terms -> VClosure
        self.symparams = ()

    # ---------- shapes / denotation / support ----------
    def shape(self, x):
        x = self.W.rep(x)
        if x[0] == 'leaf': return 'T' if x[1] else 'F'
        return self.W.shape.get(x)

    def decide_shape(self, x, alts=('F', 'T', 'C')):
        x = self.W.rep(x)
        s = self.shape(x)
        if s is not None: return s
        a = [k for k in alts]
        allowed = self.E.shape_alts(self, x)
        if allowed is not None: a = [k for k in a if k in allowed]
        v = self.W.decide(('shape', x), a)
        self.W.shape[x] = v
        self.on_shape(x, v)
        return v

    def on_shape(self, x, v):
        # consistency fact between a summary-defined denotation and the decided shape
        if x[0] == 'app':
            sd = self.E.summary_den(self, x)
            if sd is not None:
                self.W.facts.append(lambda b, x=x: Iff(self.E.summary_den(self, x, b), self.shape_den(x, b)))

    def shape_den(self, x, b=None):
        s = self.shape(x)
        if s == 'F': return FALSE
        if s == 'T': return TRUE
        if s == 'C':
            return Ite(self.symden(('chv', x), b), self.den(('ch', x, 't'), b), self.den(('ch', x, 'f'), b))
        return None

    def symden(self, y, b=None):
        if self.cof is not None and b is not None:
            r = self.W.decide_eq(y, self.cof)
            if r: return const(b == 1)
        return atom(('symv', self.W.sfind(y)))

    def den(self, x, b=None):
        x = self.W.rep(x)
        if x[0] == 'leaf': return const(x[1])
        if x[0] == 'app':
            sd = self.E.summary_den(self, x, b)
            if sd is not None: return sd
        sd = self.shape_den(x, b)
        if sd is not None: return sd
        if b is not None and self.indep(x): b = None
        return atom(('den', x, b))

    def origins(self, x):
        """terms/symbols whose supports cover supp(x)"""
        x = self.W.rep(x)
        if x[0] == 'leaf': return set()
        if x[0] == 'app':
            o = self.E.summary_origins(self, x)
            if o is not None: return o
        s = self.shape(x)
        if s in ('F', 'T'): return set()
        return {x}

    def gens(self, x):
        """ordering generators: ('gt',c) all vars > c; ('ge',c); ('eq',c) the symbol c; ('supp',t) unknown"""
        out = set()
        for o in self.origins(x):
            if o[0] == 'sym': out.add(('eq', o[1]))
            elif o[0] == 'list': out.add(('supp', o))
            elif o[0] == 'exclL':
                for g in self.gens(o[2]): out.add(g)
            elif o[0] == 'excl':
                for g in self.gens(o[2]): out.add(('excl', o[1], g))
            elif o[0] == 'ch': out.add(('gt', ('chv', o[1])))
            elif self.shape(o) == 'C': out.add(('ge', ('chv', o)))
            elif self.shape(o) in ('F', 'T'): pass
            else: out.add(('supp', o))
        return out

    def indep(self, x):
        """x provably does not depend on the cofactor symbol"""
        if self.cof is None: return True
        for g in self.gens(x):
            if not self.gen_excludes(g, self.cof): return False
        return True

    def gen_excludes(self, g, s):
        """does generator g exclude symbol s from the support?"""
        if g[0] == 'excl':
            if self.W.rel(g[1], s) == 'eq': return True
            return self.gen_excludes(g[2], s)
        if g[0] == 'gt':
            return self.W.rel(s, g[1]) in ('lt', 'eq')
        if g[0] == 'ge':
            return self.W.rel(s, g[1]) == 'lt'
        if g[0] == 'eq':
            r = self.W.rel(s, g[1])
            if r in ('lt', 'gt'): return True
            return frozenset((self.W.sfind(s), self.W.sfind(g[1]))) in self.W.neq
        return False

    def gen_above(self, g, v):
        """generator g only contains symbols strictly greater than v"""
        if g[0] == 'excl': return self.gen_above(g[2], v)
        if g[0] == 'gt': return self.W.rel(v, g[1]) in ('lt', 'eq')
        if g[0] in ('ge', 'eq'): return self.W.rel(v, g[1]) == 'lt'
        return False

    def descends(self, o, root):
        """o is root or a (transitive) sub-node / member of root"""
        root = self.W.rep(root)
        if o[0] == 'list': o = o[1]
        while True:
            o = self.W.rep(o)
            if o == root: return True
            if o[0] in ('ch', 'tl', 'hd', 'fld', 'elem'): o = o[1]
            else: return False

    def subsupp(self, x, root):
        for o in self.origins(x):
            if o[0] == 'sym':
                c = o[1]
                ok = False
                # c must be the test symbol of a Choice-shaped descendant of root
                cr = self.W.sfind(c)
                for t, s in list(self.W.shape.items()):
                    if s == 'C' and self.descends(t, root) and self.W.sfind(('chv', t)) == cr: ok = True
                if not ok: return False
            elif o[0] in ('excl', 'exclL'):
                if not self.subsupp(o[2], root): return False
            elif not self.descends(o, root): return False
        return True

    # ---------- values ----------
    def fresh(self, cls, term, ty=None):
        k = cls[0]
        if k == 'bdd': return VBdd(term)
        if k == 'sym': return VSym(term)
        if k == 'int': return VInt(Lin.var(('int', show_key(term))))
        if k == 'bool': return VBool(atom(('bool', term)))
        if k == 'list': return VList(term, cls[1])
        if k == 'data': return VData(cls[1], term)
        if k == 'tuple': return VTuple([self.fresh(c, ('fld', term, '', i)) for i, c in enumerate(cls[1])])
        if k == 'fnparam': return VFnParam(term)
        if k == 'option': return VOption('opaque', term=term, mk=lambda t, c=cls[1]: self.fresh(c, t))
        if k == 'unit': return UNIT
        if k == 'str': return VOpaque(term, 'str')
        return VOpaque(term, ty)

    def term_of(self, v):
        if isinstance(v, (VBdd, VSym, VList, VData, VOpaque, VIter)): return v.term
        if isinstance(v, VInt): return ('lin', v.lin)
        if isinstance(v, VBool): return ('b', v.t)
        if isinstance(v, VCons): return ('cons', v.adt, v.variant) + tuple(self.term_of(f) for f in v.fields)
        if isinstance(v, VTuple): return ('tup',) + tuple(self.term_of(f) for f in v.items)
        if isinstance(v, VFnItem): return ('fn', v.name)
        if isinstance(v, VFnParam): return v.name
        if isinstance(v, VClosure):
            t = ('closure', v.name); self.reg[t] = v; return t
        if isinstance(v, VUnit): return ('unit',)
        if isinstance(v, VStr): return ('str', v.s)
        if isinstance(v, VOption):
            if v.tag == 'none': return ('none',)
            if v.tag == 'some': return ('some', self.term_of(v.value))
            return v.term
        if isinstance(v, VCell): return ('cell', v.key)
        raise Undecidable('term_of %r' % (v,))

    def truth(self, v, loc='?'):
        """decide a host Boolean for control flow"""
        if not isinstance(v, VBool): raise Undecidable('condition is not Boolean: %r' % (v,), loc)
        t = v.t
        if t[0] == 'c': return t[1]
        neg = False
        while t[0] == 'not':
            t = t[1]; neg = not neg
        r = self.W.decide(('bool', t), [True, False])
        self.W.facts.append(lambda b, t=t, r=r: t if r else Not(t))
        return (not r) if neg else r

    # ---------- bdd structural equality ----------
    def bdd_eq(self, x, y):
        x, y = self.W.rep(x), self.W.rep(y)
        if x == y: return True
        # leaf comparisons reduce to shape decisions
        for (p, q) in ((x, y), (y, x)):
            if p[0] == 'leaf':
                want = 'T' if p[1] else 'F'
                s = self.decide_shape(q)
                return s == want
        sx, sy = self.shape(x), self.shape(y)
        if sx is not None and sy is not None and sx != sy: return False
        if sx in ('F', 'T') and sx == sy: return True
        key = ('beq',) + tuple(sorted((x, y), key=repr))
        v = self.W.decide(key, [True, False])
        if v:
            # structural equality: identify the terms (denotations, shapes, children)
            a, b_ = key[1], key[2]
            if self.shape(b_) is not None and self.shape(a) is None:
                a, b_ = b_, a
            if _contains(a, b_):      # never make a super-term the representative of its own sub-term
                a, b_ = b_, a
            self.W.alias[b_] = a
            self.W.facts.append(lambda b, p=a, q=b_: Iff(self._den_noalias(p, b), self._den_noalias(q, b)))
        return v

    def _den_noalias(self, x, b):
        # denotation of x ignoring the alias chain head (used only to state the equality fact)
        if x[0] == 'app':
            sd = self.E.summary_den(self, x, b)
            if sd is not None: return sd
        s = self.W.shape.get(x)
        if s is not None: return self.shape_den(x, b)
        return atom(('den', x, b if not (b is not None and self.indep(x)) else None))

    # ---------- lists ----------
    def list_empty(self, L):
        if L[0] == 'nil': return True
        if L[0] == 'cons': return False
        if L[0] == 'map': return self.list_empty(L[2])
        if L[0] == 'filter' and self.list_state(L[2]) == 'nil': return True
        v = self.W.decide(('list', L), ['nil', 'cons'])
        return v == 'nil'

    def list_state(self, L):
        if L[0] == 'nil': return 'nil'
        if L[0] == 'cons': return 'cons'
        if L[0] == 'map': return self.list_state(L[2])
        return self.W.dec.get(('list', L)) if ('list', L) in self.W.used or ('list', L) in self.W.dec else None

    def list_head(self, L, elem, loc):
        if L[0] == 'cons': return L[1]
        if self.list_empty(L): raise Diverge('index out of bounds (head of empty list)', loc)
        if L[0] == 'map': raise Undecidable('head of mapped list', loc)
        return ('hd', L)

    def list_tail(self, L, loc):
        if L[0] == 'cons': return L[2]
        if self.list_empty(L): raise Diverge('slice start out of range (tail of empty list)', loc)
        if L[0] == 'map': raise Undecidable('tail of mapped list', loc)
        return ('tl', L)

    def cnt(self, L):
        """Lin: number of members of BDD-list L that are true (pointwise), for branch b resolved later"""
        return Lin.var(('cntl', L))

    def elem_value(self, cls, term):
        return self.fresh(cls, term)

    # ---------- evaluation ----------
    def run_body(self, thir, args):
        env = {}
        params = thir['params']
        if len(params) != len(args):
            raise Undecidable('arity mismatch calling %s' % thir['def'])
        for p, a in zip(params, args):
            if 'pat' in p:
                if not self.match(p['pat'], a, env):
                    raise Undecidable('refutable parameter pattern', thir['span']['loc'])
        try:
            return self.ev(thir['body'], env)
        except ReturnExc as r:
            return r.value

    def ev_block(self, e, env):
        env = dict(env) if False else env
        for s in e['stmts']:
            if s['k'] == 'Expr':
                self.ev(s['expr'], env)
            else:
                if s['init'] is None:
                    # declared, assigned later
                    self.bind_uninit(s['pat'], env)
                    continue
                v = self.ev(s['init'], env)
                if not self.match(s['pat'], v, env):
                    if s.get('else') is not None:
                        self.ev(s['else'], env)
                        raise Undecidable('let-else fell through', s['span']['loc'])
                    raise Undecidable('refutable let pattern failed', s['span']['loc'])
        if e['expr'] is not None:
            return self.ev(e['expr'], env)
        return UNIT

    def bind_uninit(self, pat, env):
        if pat['k'] == 'Binding':
            env[pat['var']] = None
        else:
            raise Undecidable('uninitialised let with pattern', pat['loc'])

    def ev(self, e, env):
        k = e['k']
        loc = e.get('loc', '?')
        m = getattr(self, 'ev_' + k, None)
        if m is None:
            raise Undecidable('expression kind ' + k, loc)
        return m(e, env)

    def ev_Block(self, e, env): return self.ev_block(e, env)
    def ev_Use(self, e, env): return self.ev(e['source'], env)
    def ev_NeverToAny(self, e, env): return self.ev(e['source'], env)
    def ev_PointerCoercion(self, e, env): return self.ev(e['source'], env)
    def ev_Deref(self, e, env): return self.ev(e['arg'], env)
    def ev_Borrow(self, e, env): return self.ev(e['arg'], env)

    def ev_VarRef(self, e, env):
        if e['var'] not in env: raise Undecidable('unbound variable ' + e['var'], e['loc'])
        v = env[e['var']]
        if v is None: raise Undecidable('use of uninitialised variable ' + e['var'], e['loc'])
        return v
    ev_UpvarRef = ev_VarRef

    def ev_Literal(self, e, env):
        l = e['lit']
        if l == 'Bool': return VBool(const(e['value']))
        if l == 'Int':
            n = int(e['value'])
            return VInt(Lin.const(-n if e['neg'] else n))
        if l == 'Str': return VStr(e['value'])
        if l == 'ByteStr': return VOpaque(('bytes', e['loc']))
        raise Undecidable('literal ' + l, e['loc'])

    def ev_Tuple(self, e, env):
        if not e['fields']: return UNIT
        return VTuple([self.ev(f, env) for f in e['fields']])

    def ev_Array(self, e, env):
        items = [self.ev(f, env) for f in e['fields']]
        if items and all(isinstance(x, (VBdd, VData, VCons, VSym)) for x in items): return VItems(items)
        return VOpaque(('array', e['loc']))

    def ev_Adt(self, e, env):
        adt = canon(e['adt'])
        fields = [None] * len(e['fields'])
        names = [None] * len(e['fields'])
        for f in e['fields']:
            if f['idx'] >= len(fields):
                fields.extend([None] * (f['idx'] + 1 - len(fields))); names.extend([None] * (f['idx'] + 1 - len(names)))
            fields[f['idx']] = self.ev(f['expr'], env)
            names[f['idx']] = f['name']
        if 'base' in e: raise Undecidable('struct update syntax', e['loc'])
        if adt == 'rsbdd::bdd::BDD':
            if e['variant'] == 'True': return VBdd(('leaf', True))
            if e['variant'] == 'False': return VBdd(('leaf', False))
            self.events.append(('raw_choice', e['loc']))
            t, v, f = fields
            return VBdd(('app', 'RAW_CHOICE', self.term_of(t), self.term_of(v), self.term_of(f)))
        if adt == 'std::ops::RangeFrom':
            return VCons(adt, e['variant'], fields, names)
        if adt == 'std::ops::Range':
            return VCons(adt, e['variant'], fields, names)
        return VCons(adt, e['variant'], fields, names)

    def ev_Field(self, e, env):
        base = self.ev(e['lhs'], env)
        name = e.get('field_name', str(e['field']))
        if isinstance(base, VTuple): return base.items[e['field']]
        if isinstance(base, VCons): return base.fields[e['field']]
        if isinstance(base, (VOpaque, VData)):
            term = ('fld', base.term, '', name)
            cls = ty_class(e['ty'], self.symparams)
            if cls[0] == 'opaque' and self.E.is_tracked_cell(e['ty']):
                return VCell(term)
            return self.fresh(cls, term, e['ty'])
        raise Undecidable('field access on %r' % (base,), e['loc'])

    def ev_If(self, e, env):
        c = e['cond']
        if c['k'] == 'Let':
            v = self.ev(c['expr'], env)
            ok = self.match(c['pat'], v, env)
        else:
            cv = self.ev(c, env)
            if getattr(self, 'merge_ifs', False) and isinstance(cv, VBool) and cv.t[0] != 'c' and e['else'] is not None:
                # symbolic merge of two diagram-valued branches under an opaque host condition (no decision taken)
                a = self.ev(e['then'], dict(env)); b = self.ev(e['else'], dict(env))
                if isinstance(a, VBdd) and isinstance(b, VBdd):
                    return VBdd(('app', 'HOST_ITE', ('b', cv.t), a.term, b.term))
                raise Undecidable('merge of non-diagram branches', e['loc'])
            ok = self.truth(cv, c.get('loc'))
        if ok: return self.ev(e['then'], env)
        if e['else'] is not None: return self.ev(e['else'], env)
        return UNIT

    def ev_LogicalOp(self, e, env):
        l = self.ev(e['lhs'], env)
        if not isinstance(l, VBool): raise Undecidable('logical op on non-bool', e['loc'])
        # short-circuit: evaluate rhs symbolically only if it is effect-free w.r.t. decisions; we decide lhs
        if l.t[0] == 'c':
            if e['op'] == 'And':
                return self.ev(e['rhs'], env) if l.t[1] else VBool(FALSE)
            return VBool(TRUE) if l.t[1] else self.ev(e['rhs'], env)
        lv = self.truth(l, e['loc'])
        if e['op'] == 'And':
            return self.ev(e['rhs'], env) if lv else VBool(FALSE)
        return VBool(TRUE) if lv else self.ev(e['rhs'], env)

    def ev_Unary(self, e, env):
        a = self.ev(e['arg'], env)
        if e['op'] == 'Not' and isinstance(a, VBool): return VBool(Not(a.t))
        if e['op'] == 'Neg' and isinstance(a, VInt): return VInt(-a.lin)
        raise Undecidable('unary %s on %r' % (e['op'], a), e['loc'])

    def ev_Binary(self, e, env):
        l = self.ev(e['lhs'], env); r = self.ev(e['rhs'], env)
        op = e['op']
        if isinstance(l, VInt) and isinstance(r, VInt):
            if op == 'Add': return VInt(l.lin + r.lin)
            if op == 'Sub': return VInt(l.lin - r.lin)
            if op == 'Mul':
                if l.lin.is_const(): return VInt(r.lin.scale(l.lin.k))
                if r.lin.is_const(): return VInt(l.lin.scale(r.lin.k))
                raise Undecidable('non-linear multiplication', e['loc'])
            if op == 'Shr' or op == 'BitAnd' or op == 'Div' or op == 'Rem':
                return VInt(Lin.var(('int', '(%r %s %r)' % (l.lin, op, r.lin))))
            d = l.lin - r.lin
            if op == 'Le': return VBool(('le0', d))
            if op == 'Lt': return VBool(('le0', d + 1))
            if op == 'Ge': return VBool(('le0', -d))
            if op == 'Gt': return VBool(('le0', -d + 1))
            if op == 'Eq': return VBool(('eq0', d))
            if op == 'Ne': return VBool(Not(('eq0', d)))
        if isinstance(l, VBool) and isinstance(r, VBool):
            if op == 'Eq': return VBool(Iff(l.t, r.t))
            if op == 'Ne': return VBool(Xor(l.t, r.t))
            if op == 'BitAnd': return VBool(And(l.t, r.t))
            if op == 'BitOr': return VBool(Or(l.t, r.t))
            if op == 'BitXor': return VBool(Xor(l.t, r.t))
        raise Undecidable('binary %s on %r, %r' % (op, l, r), e['loc'])

    def ev_Cast(self, e, env):
        v = self.ev(e['source'], env)
        fr = e['from_ty']['s']; to = e['ty']['s']
        if isinstance(v, VInt) and fr in INT_TYPES and to in INT_TYPES:
            lossy = not (INT_TYPES[fr][0] >= INT_TYPES[to][0] and INT_TYPES[fr][1] <= INT_TYPES[to][1])
            self.events.append(('cast', fr, to, lossy, e['loc']))
            return v
        raise Undecidable('cast %s -> %s' % (fr, to), e['loc'])

    def ev_Return(self, e, env):
        raise ReturnExc(self.ev(e['value'], env) if e['value'] is not None else UNIT)

    def ev_Closure(self, e, env):
        return VClosure(canon(e['def']), dict(env))

    def ev_ZstLiteral(self, e, env):
        if 'fn' in e:
            return VFnItem(canon(e['fn'].get('res') or e['fn']['def']), canon(e['fn']['def']))
        return UNIT

    def for_parts(self, e):
        """`for PAT in ITER { BODY }` (ForLoopDesugar) -> (ITER expr, PAT, BODY) or None"""
        if e.get('source') != 'ForLoopDesugar' or len(e['arms']) != 1: return None
        sc = e['scrutinee']
        while sc['k'] in ('Use', 'NeverToAny'): sc = sc['source']
        if sc['k'] != 'Call' or len(sc['args']) != 1: return None
        lp = e['arms'][0]['body']
        while lp['k'] in ('Use', 'NeverToAny'): lp = lp['source']
        if lp['k'] != 'Loop': return None
        for m in walk(lp['body']):
            if m['k'] == 'Match' and m.get('source') == 'ForLoopDesugar':
                for a in m['arms']:
                    p = a['pat']
                    if p['k'] == 'Variant' and p['variant'] == 'Some' and p['subs']:
                        return sc['args'][0], p['subs'][0]['pat'], a['body']
                return None
        return None

    def ev_for(self, e, parts, env):
        """A `for` loop that only updates one diagram-valued accumulator is a fold; anything else is not analysed."""
        itx, pat, body = parts
        assigned = set()
        for x in walk(body):
            if x['k'] in ('Assign', 'AssignOp'):
                if x['lhs']['k'] != 'VarRef': raise Undecidable('loop assigning to something other than a local variable', e['loc'])
                if x['lhs']['var'] in env: assigned.add(x['lhs']['var'])
            if x['k'] in ('Break', 'Continue', 'Return') or (x['k'] == 'Match' and 'TryDesugar' in str(x.get('source'))):
                raise Undecidable('loop with an early exit', e['loc'])
        if len(assigned) != 1: raise Undecidable('loop carrying %d variables (only single-accumulator loops are analysed)' % len(assigned), e['loc'])
        acc = next(iter(assigned))
        if not isinstance(env.get(acc), VBdd): raise Undecidable('loop-carried variable %s is not a diagram' % acc, e['loc'])
        it = self.ev(itx, env)
        def step(a, x):
            env2 = dict(env); env2[acc] = a
            if not self.match(pat, x, env2): raise Undecidable('refutable loop pattern', e['loc'])
            self.ev(body, env2)
            return env2[acc]
        fold = self.E.std['__fold_core__']
        env[acc] = fold(self, it, env[acc], step, e['loc'], body)
        return UNIT

    def ev_Match(self, e, env):
        fp = self.for_parts(e)
        if fp is not None: return self.ev_for(e, fp, env)
        v = self.ev(e['scrutinee'], env)
        if isinstance(v, VCons) and v.adt == 'CLAMPABLE':
            # `match T::try_from(x) { Ok(b) => b.., Err(_) => d }`: the written-out form of try_from(x).unwrap_or(d).  As there: the identity on x,
            # justified only if the replacement d is at least 2^63-1 (recorded as a clamp / clamp_bad event, judged by the specification)
            oks = []; errs = []
            for arm in e['arms']:
                q = arm['pat']
                while q['k'] in ('Deref', 'DerefPattern', 'AscribeUserType'): q = q.get('sub') or q.get('subpattern')
                if arm['guard'] is None and q['k'] == 'Variant' and q['variant'] == 'Ok' and len(q['subs']) == 1: oks.append((arm, q))
                elif arm['guard'] is None and ((q['k'] == 'Variant' and q['variant'] == 'Err') or q['k'] == 'Wild'): errs.append(arm)
            if len(oks) == 1 and len(errs) == 1 and len(e['arms']) == 2 and e['arms'][0] is oks[0][0]:
                d = self.ev(errs[0]['body'], dict(env))
                ok = isinstance(d, VInt) and d.lin.is_const() and d.lin.k >= 2**63 - 1
                self.events.append(('clamp' if ok else 'clamp_bad', repr(d), e['loc']))
                env2 = dict(env)
                if not self.match(oks[0][1]['subs'][0]['pat'], v.fields[0], env2): raise Undecidable('payload pattern of the conversion', e['loc'])
                return self.ev(oks[0][0]['body'], env2)
            raise Undecidable('match on a fallible integer conversion', e['loc'])
        for arm in e['arms']:
            env2 = dict(env)
            if self.match(arm['pat'], v, env2):
                if arm['guard'] is not None:
                    g = arm['guard']
                    if g['k'] == 'Let':
                        gv = self.ev(g['expr'], env2)
                        if not self.match(g['pat'], gv, env2): continue
                    elif not self.truth(self.ev(g, env2), g.get('loc')):
                        continue
                env.update({k: val for k, val in env2.items() if k not in env or env[k] is not val})
                self.events.append(('arm', e['loc'], pp_pat(arm['pat'])))
                return self.ev(arm['body'], env2)
        raise Diverge('no match arm applies', e['loc'])

    def ev_Let(self, e, env):
        v = self.ev(e['expr'], env)
        return VBool(const(self.match(e['pat'], v, env)))

    def ev_Index(self, e, env):
        base = self.ev(e['lhs'], env); idx = self.ev(e['index'], env)
        return self.index(base, idx, e['loc'])

    def index(self, base, idx, loc):
        if isinstance(base, VList):
            if isinstance(idx, VInt) and idx.lin.is_const() and idx.lin.k == 0:
                return self.fresh(base.elem, self.list_head(base.term, base.elem, loc))
            if isinstance(idx, VCons) and idx.adt == 'std::ops::RangeFrom':
                st = idx.fields[0]
                if isinstance(st, VInt) and st.lin.is_const() and st.lin.k == 1:
                    return VList(self.list_tail(base.term, loc), base.elem)
                if isinstance(st, VInt) and st.lin.is_const() and st.lin.k == 0:
                    return base
        raise Undecidable('index %r[%r]' % (base, idx), loc)

    def ev_Assign(self, e, env):
        v = self.ev(e['rhs'], env)
        l = e['lhs']
        if l['k'] == 'VarRef':
            env[l['var']] = v
            return UNIT
        raise Undecidable('assignment to non-variable', e['loc'])

    def ev_AssignOp(self, e, env):
        l = e['lhs']
        if l['k'] == 'VarRef':
            cur = env.get(l['var']); r = self.ev(e['rhs'], env)
            if isinstance(cur, VInt) and isinstance(r, VInt):
                op = e['op'].replace('Assign', '')
                if op == 'Add': env[l['var']] = VInt(cur.lin + r.lin); return UNIT
                if op == 'Sub': env[l['var']] = VInt(cur.lin - r.lin); return UNIT
        raise Undecidable('compound assignment', e['loc'])

    def pop_loop_parts(self, e, env):
        """`while let Some(PAT) = V.pop() { BODY }` with V a local list the body does not mention -> (V, PAT, BODY) or None"""
        b = e['body']
        while b['k'] in ('Use', 'NeverToAny') or (b['k'] == 'Block' and not b['stmts'] and b.get('expr') is not None): b = b['source'] if b['k'] != 'Block' else b['expr']
        if b['k'] != 'If' or b.get('else') is None: return None
        c = b['cond']
        while c['k'] in ('Use',): c = c['source']
        if c['k'] != 'Let': return None
        el = b['else']
        for _ in range(8):
            if el['k'] in ('Use', 'NeverToAny'): el = el['source']
            elif el['k'] == 'Block' and not el['stmts'] and el.get('expr') is not None: el = el['expr']
            elif el['k'] == 'Block' and len(el['stmts']) == 1 and el.get('expr') is None and el['stmts'][0]['k'] == 'Expr': el = el['stmts'][0]['expr']
            else: break
        if el['k'] != 'Break' or el.get('value') is not None: return None
        p = c['pat']
        while p['k'] in ('Deref', 'DerefPattern'): p = p['sub']
        if not (p['k'] == 'Variant' and p['variant'] == 'Some' and len(p['subs']) == 1): return None
        src = c['expr']
        while src['k'] in ('Use',): src = src['source']
        if not (src['k'] == 'Call' and callee_name(src) == 'std::vec::Vec::pop' and len(src['args']) == 1): return None
        r = src['args'][0]
        while r['k'] in ('Use', 'Borrow', 'Deref'): r = r.get('source') or r.get('arg')
        if r['k'] != 'VarRef' or r['var'] not in env: return None
        if any(x['k'] in ('VarRef', 'UpvarRef') and x.get('var') == r['var'] for x in walk(b['then'])): return None
        return r['var'], p['subs'][0]['pat'], b['then']

    def ev_Loop(self, e, env):
        """One symbolic iteration from a havoc'd state (only when the function's spec asks for it): variables assigned in the
        loop body get fresh symbols; the iteration either breaks (execution continues after the loop) or completes, which
        ends the world with a record of the next state."""
        wl = self.pop_loop_parts(e, env)
        if wl is not None:
            # `while let Some(x) = list.pop() { acc = f(x, acc) }`: a fold over the list taken from the back - the for-loop reading over list.into_iter().rev()
            lv, pat, body = wl
            it = self.E.std['std::iter::Iterator::rev'](self, [self.E.std['std::iter::IntoIterator::into_iter'](self, [env[lv]], e, None)], e, None)
            assigned = set()
            for x in walk(body):
                if x['k'] in ('Assign', 'AssignOp'):
                    if x['lhs']['k'] != 'VarRef': raise Undecidable('loop assigning to something other than a local variable', e['loc'])
                    if x['lhs']['var'] in env: assigned.add(x['lhs']['var'])
                if x['k'] in ('Break', 'Continue', 'Return') or (x['k'] == 'Match' and 'TryDesugar' in str(x.get('source'))):
                    raise Undecidable('loop with an early exit', e['loc'])
            if len(assigned) != 1: raise Undecidable('loop carrying %d variables (only single-accumulator loops are analysed)' % len(assigned), e['loc'])
            acc = next(iter(assigned))
            if not isinstance(env.get(acc), VBdd): raise Undecidable('loop-carried variable %s is not a diagram' % acc, e['loc'])
            def step(a, x):
                env2 = dict(env); env2[acc] = a
                if not self.match(pat, x, env2): raise Undecidable('refutable loop pattern', e['loc'])
                self.ev(body, env2)
                return env2[acc]
            env[acc] = self.E.std['__fold_core__'](self, it, env[acc], step, e['loc'], body)
            del env[lv]                      # emptied by the loop: not to be read again
            return UNIT
        if not getattr(self, 'loop_mode', False):
            raise Undecidable('loop', e['loc'])
        if getattr(self, 'in_loop', False): raise Undecidable('nested loop', e['loc'])
        assigned = set()
        for x in walk(e['body']):
            if x['k'] in ('Assign', 'AssignOp') and x['lhs']['k'] == 'VarRef': assigned.add(x['lhs']['var'])
        carried = [v for v in sorted(assigned) if v in env]
        for v in carried:
            if not isinstance(env[v], VBdd): raise Undecidable('loop-carried variable %s is not a diagram' % v, e['loc'])
        init = {v: self.W.rep(env[v].term) for v in carried}
        # a carried variable that enters the loop as f(other carried variable) for an unknown function f (`let mut snew = t(s)`) is
        # assumed to stay so at the loop head - an invariant the rule of the function must re-establish on the continuing iteration
        derived = {}
        for v in carried:
            t0 = init[v]
            if isinstance(t0, tuple) and len(t0) == 4 and t0[0] == 'app' and t0[1] == 'UFT':
                for u in carried:
                    if u != v and init[u] == t0[3] and u not in derived: derived[v] = (u, t0[2]); break
        for v in carried:
            if v in derived: continue
            self.events.append(('loop_init', v, env[v].term))
            env[v] = VBdd(('p', v.split('#')[0] + '@iter'))
        for v, (u, fname_) in derived.items():
            self.events.append(('loop_invariant', v, u, fname_))
            env[v] = VBdd(('app', 'UFT', fname_, ('p', u.split('#')[0] + '@iter')))
        self.in_loop = True
        try:
            self.ev(e['body'], env)
        except BreakExc as bx:
            self.in_loop = False
            self.events.append(('loop_break',))
            v = getattr(bx, 'value', None)
            return v if v is not None else UNIT
        self.in_loop = False
        self.events.append(('loop_continue', {v: env[v].term for v in assigned if v in env and isinstance(env[v], VBdd)}))
        raise LoopContinue()

    def ev_Break(self, e, env):
        x = BreakExc()
        x.value = self.ev(e['value'], env) if e['value'] is not None else None
        raise x

    def ev_StaticRef(self, e, env):
        return VOpaque(('static', canon(e['def'])))

    def ev_NamedConst(self, e, env):
        d = canon(e['def'])
        import re as _re
        m = _re.match(r'core::num::<impl (\w+)>::(MAX|MIN)$', d)
        if m and m.group(1) in INT_TYPES:
            lo, hi = INT_TYPES[m.group(1)]
            return VInt(Lin.const(hi if m.group(2) == 'MAX' else lo))
        return VOpaque(('const', d))

    # ---------- patterns ----------
    def match(self, p, v, env):
        k = p['k']
        if k == 'Wild' or k == 'Missing': return True
        if k == 'Binding':
            env[p['var']] = v
            if p.get('sub') is not None: return self.match(p['sub'], v, env)
            return True
        if k in ('Deref', 'DerefPattern'):
            return self.match(p['sub'], v, env)
        if k == 'Or':
            for q in p['pats']:
                e2 = dict(env)
                if self.match(q, v, e2):
                    env.update(e2); return True
            return False
        if k == 'Guard':
            if not self.match(p['sub'], v, env): return False
            return self.truth(self.ev(p['cond'], env), p.get('loc'))
        if k == 'Leaf':
            if isinstance(v, VTuple):
                for s in p['subs']:
                    if not self.match(s['pat'], v.items[s['field']], env): return False
                return True
            if isinstance(v, VCons):
                for s in p['subs']:
                    if not self.match(s['pat'], v.fields[s['field']], env): return False
                return True
            if isinstance(v, (VOpaque, VData)):
                for s in p['subs']:
                    cls = ty_class(s['pat']['ty'], self.symparams)
                    if not self.match(s['pat'], self.fresh(cls, ('fld', v.term, '', s['field'])), env): return False
                return True
            raise Undecidable('leaf pattern on %r' % (v,), p['loc'])
        if k == 'Variant':
            adt = canon(p['adt'])
            var = p['variant']
            if adt == 'rsbdd::bdd::BDD':
                if not isinstance(v, VBdd): raise Undecidable('BDD pattern on %r' % (v,), p['loc'])
                want = {'False': 'F', 'True': 'T', 'Choice': 'C'}[var]
                s = self.decide_shape(v.term)
                if s != want: return False
                if want == 'C':
                    x = self.W.rep(v.term)
                    parts = {0: VBdd(('ch', x, 't')), 1: VSym(('chv', x)), 2: VBdd(('ch', x, 'f'))}
                    for sp in p['subs']:
                        if not self.match(sp['pat'], parts[sp['field']], env): return False
                return True
            if adt == 'std::option::Option':
                if not isinstance(v, VOption): raise Undecidable('Option pattern on %r' % (v,), p['loc'])
                tag = v.tag
                if tag == 'opaque':
                    tag = self.W.decide(('opt', v.term), ['none', 'some'])
                if var == 'None': return tag == 'none'
                if tag != 'some': return False
                inner = v.value if v.tag == 'some' else v.mk(('some', v.term))
                for sp in p['subs']:
                    if not self.match(sp['pat'], inner, env): return False
                return True
            if isinstance(v, VCons):
                if canon(v.adt) != adt: raise Undecidable('variant pattern adt mismatch', p['loc'])
                if v.variant != var: return False
                for sp in p['subs']:
                    if not self.match(sp['pat'], v.fields[sp['field']], env): return False
                return True
            if isinstance(v, VData):
                variants = self.E.variants(adt)
                if variants is None: raise Undecidable('unknown ADT ' + adt, p['loc'])
                alts = [x['name'] for x in variants]
                excl = self.E.excluded_variants(self, v.term, adt)
                alts = [a for a in alts if a not in excl]
                got = self.W.decide(('variant', v.term), alts)
                if got != var: return False
                vdef = [x for x in variants if x['name'] == var][0]
                for sp in p['subs']:
                    fty = vdef['fields'][sp['field']]['ty']
                    cls = ty_class(fty, self.symparams)
                    fv = self.fresh(cls, ('fld', v.term, var, sp['field']), fty)
                    if not self.match(sp['pat'], fv, env): return False
                return True
            raise Undecidable('variant pattern %s::%s on %r' % (adt, var, v), p['loc'])
        if k == 'Constant':
            if isinstance(v, VBool):
                want = p['value'] == 'true'
                if v.t[0] == 'c': return v.t[1] == want
                r = self.truth(v, p['loc'])
                return r == want
            if isinstance(v, VInt) and v.lin.is_const():
                try: return int(p['value'].split('_')[0].rstrip('iusize0123456789') or p['value']) == v.lin.k
                except ValueError: pass
            raise Undecidable('constant pattern on %r' % (v,), p['loc'])
        raise Undecidable('pattern kind ' + k, p['loc'])

    # ---------- calls ----------
    def ev_Call(self, e, env):
        c = e.get('callee')
        loc = e['loc']
        if not c:
            # call through a value (fn pointer / closure variable)
            f = self.ev(e['fun'], env)
            args = [self.ev(a, env) for a in e['args']]
            return self.apply(f, args, loc, e)
        decl = canon(c['def'])
        res = canon(c.get('res')) if c.get('res') else None
        args = [self.ev(a, env) for a in e['args']]
        return self.E.call(self, decl, res, c, args, e)

    def apply(self, f, args, loc, e=None):
        if isinstance(f, VClosure):
            th = self.E.thir(f.name)
            if th is None: raise Undecidable('closure body not found ' + f.name, loc)
            sub_env = dict(f.env)
            params = th['params'][1:]
            if len(params) != len(args): raise Undecidable('closure arity', loc)
            for p, a in zip(params, args):
                if not self.match(p['pat'], a, sub_env): raise Undecidable('closure param pattern', loc)
            self.depth += 1
            if self.depth > 12: raise Undecidable('inlining depth', loc)
            try:
                return self.ev(th['body'], sub_env)
            except ReturnExc as r:
                return r.value
            finally:
                self.depth -= 1
        if isinstance(f, VFnItem):
            for key in (f.name, 'trait:' + f.decl, f.decl):
                if key in self.E.std and f.name not in self.E.specs:
                    return self.E.std[key](self, args, e or {'loc': loc, 'ty': {'k': 'Other', 's': '?'}}, {})
            return self.E.call_by_name(self, f.name, args, loc)
        if isinstance(f, VFnParam):
            return self.E.apply_fnparam(self, f, args, loc, e)
        raise Undecidable('call of %r' % (f,), loc)

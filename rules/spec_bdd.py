"""Specifications (summaries + post-conditions) of the functions in src/bdd.rs.
Transcribed from the property statements C02-C07, C20 and DESIGN.md appendix A.  This table is the
oracle of engines S and O; nothing in it is derived from the code under analysis."""

from logic import *
from absint import *
from engine import FnSpec, Obl, world_desc

B = 'rsbdd::bdd::BDDEnv::'

def D(I, x, b=None): return I.den(x, b)

def union_orig(I, terms):
    out = set()
    for t in terms: out |= I.origins(t)
    return out

def cnt_lin(I, L):
    """number of members of the BDD list L that are true under the assignment (a Lin with indicator vars)"""
    if L[0] == 'nil': return Lin.const(0)
    if L[0] == 'cons': return Lin.var(('ind', D(I, L[1]))) + cnt_lin(I, L[2])
    st = I.W.dec.get(('list', L)) if ('list', L) in I.W.used else None
    if st == 'nil': return Lin.const(0)
    if st == 'cons': return Lin.var(('ind', D(I, ('hd', L)))) + cnt_lin(I, ('tl', L))
    return Lin.var(('cnt', L))

def lin_of(t):
    assert t[0] == 'lin', t
    return t[1]

def apply_bool_fn(I, f, lin, loc='?'):
    """f: term of a function value Int -> bool"""
    if f[0] == 'closure':
        r = I.apply(I.reg[f], [VInt(lin)], loc)
        if not isinstance(r, VBool): raise Undecidable('comparator closure does not return bool', loc)
        return r.t
    if f[0] == 'fn' and I.E.thir(f[1]) is not None and f[1] not in I.E.specs:
        # a named local function used as the comparator: its body is the comparator
        r = I.E.inline(I, f[1], [VInt(lin)], loc)
        if not isinstance(r, VBool): raise Undecidable('comparator function does not return bool', loc)
        return r.t
    return ('uf', f, lin)

def apply_bdd_fn(I, f, bterm, lin, b=None, loc='?'):
    """f: term of a function value (&Self, &[Rc<BDD>], i64) -> Rc<BDD>; returns the denotation"""
    if f[0] == 'fn':
        sp = I.E.specs.get(f[1])
        if sp is None or sp.den is None: raise Undecidable('comparator function %s has no summary' % f[1], loc)
        return sp.den(I, (bterm, ('lin', lin)), b)
    if f[0] == 'closure':
        r = I.apply(I.reg[f], [VOpaque(('p', 'self')), VList(bterm, ('bdd',)), VInt(lin)], loc)
        if not isinstance(r, VBdd): raise Undecidable('comparator closure does not return a diagram', loc)
        return D(I, r.term, b)
    return ('ufb', f, bterm, lin)

# ------------------------------------------------------------------------------------------------
# generic post-condition pieces

def bdd_param_terms(params):
    return [p.term for p in params if isinstance(p, VBdd)]

def post_no_panic(I, res, label):
    if isinstance(res, Diverge):
        return [I.E.check_true(I, False, label + ': panic/abort reachable (%s)' % res.what, loc=res.loc)]
    return []

def post_mk_choice_order(I):
    out = []
    n = 0
    for ev in I.events:
        if ev[0] != 'mk_choice': continue
        n += 1
        _, t, s, f, loc = ev
        bad = []
        for side, x in (('true-branch', t), ('false-branch', f)):
            for g in I.gens(x):
                if not I.gen_above(g, s):
                    bad.append('%s may contain a variable not above %s (support generator %s)' % (side, show_key(s), show_gen(g)))
        out.append(I.E.check_true(I, not bad, 'O: mk_choice(%s, %s, %s) respects the variable order' % (show_key(t), show_key(s), show_key(f)),
                                  {'problems': bad}, loc=loc))
    return out

def show_gen(g):
    if g[0] == 'excl': return '%s minus %s' % (show_gen(g[2]), show_key(g[1]))
    return {'gt': 'vars > ', 'ge': 'vars >= ', 'eq': 'var ', 'supp': 'supp of '}[g[0]] + show_key(g[1])

def post_size_change(I, params):
    """every self-recursive call passes (weak) sub-terms of distinct structural parameters, one strict"""
    out = []
    pterms = [(i, p.term) for i, p in enumerate(params) if isinstance(p, (VBdd, VList, VData))]
    for ev in I.events:
        if ev[0] != 'reccall': continue
        args, loc = ev[1], ev[2]
        used = set(); strict = False; ok = True; why = ''
        for a in args:
            if a is None or not isinstance(a, tuple) or a[0] in ('lin', 'b', 'fn', 'closure', 'unit', 'str', 'cons'): continue
            if a[0] == 'p' and not any(a == pt for _, pt in pterms): continue
            host = None
            for i, pt in pterms:
                if I.descends(a, pt): host = (i, pt)
            if a[0] in ('p', 'ch', 'tl', 'hd', 'fld', 'elem', 'chv'):
                if a[0] == 'chv': continue
                if host is None: ok = False; why = '%s is not a sub-term of a parameter' % show_key(a); break
                if host[0] in used: ok = False; why = 'two arguments derive from the same parameter'; break
                used.add(host[0])
                if I.W.rep(a) != I.W.rep(host[1]): strict = True
            elif a[0] in ('app', 'leaf', 'map', 'nil'):
                # a computed diagram passed to a recursive call (e.g. exists(rest, b)): allowed when another argument decreases
                continue
        if ok and not strict: ok = False; why = 'no argument strictly decreases'
        out.append(I.E.check_true(I, ok, 'M2: recursive call decreases (size-change)', {'why': why, 'args': [show_key(a) if a else '-' for a in args]}, loc=loc))
    return out

def post_den(spec_den):
    def post(I, params, res):
        o = post_no_panic(I, res, 'S')
        if o: return o + post_size_change(I, params)
        if not isinstance(res, VBdd):
            return [I.E.check_true(I, False, 'S: result is not a diagram: %r' % (res,))]
        terms = tuple(I.term_of(p) for p in params[1:])
        out = [I.E.check_valid(I, lambda b: Iff(D(I, res.term, b), spec_den(I, terms, b)),
                               'S: [[result]] == specified truth function (result = %s)' % show_key(res.term))]
        out += post_support(I, params, res)
        out += post_mk_choice_order(I)
        out += post_size_change(I, params)
        return out
    return post

def post_support(I, params, res):
    """support(result) is covered by the diagram / symbol parameters"""
    roots = [p.term for p in params if isinstance(p, (VBdd, VList))]
    syms = [p.term for p in params if isinstance(p, VSym)]
    bad = []
    for o in I.origins(res.term):
        if o[0] == 'sym':
            if any(I.W.rel(o[1], s) == 'eq' for s in syms): continue
            if any(_sym_in(I, o[1], r) for r in roots): continue
            bad.append('symbol %s' % show_key(o[1]))
        elif o[0] in ('excl', 'exclL'):
            if not any(I.subsupp(o[2], r) for r in roots): bad.append(show_key(o[2]))
        elif not any(I.descends(o, r) for r in roots):
            bad.append(show_key(o))
    return [I.E.check_true(I, not bad, 'O: support(result) is within support(arguments)', {'outside': bad})]

def _sym_in(I, c, root):
    cr = I.W.sfind(c)
    for t, s in list(I.W.shape.items()):
        if s == 'C' and I.descends(t, root) and I.W.sfind(('chv', t)) == cr: return True
    return False

# ------------------------------------------------------------------------------------------------

def install(E):
    def pointwise(name, f, nargs):
        den = lambda I, a, b=None, f=f: f(*[D(I, x, b) for x in a[:nargs]])
        E.add(FnSpec(B + name, den=den, origins=lambda I, a: union_orig(I, a[:nargs]), post=post_den(den)))

    pointwise('and', lambda a, b: And(a, b), 2)
    pointwise('or', lambda a, b: Or(a, b), 2)
    pointwise('not', lambda a: Not(a), 1)
    pointwise('implies', lambda a, b: Or(Not(a), b), 2)
    pointwise('eq', lambda a, b: Iff(a, b), 2)
    pointwise('xor', lambda a, b: Xor(a, b), 2)
    pointwise('nor', lambda a, b: Not(Or(a, b)), 2)
    pointwise('nand', lambda a, b: Not(And(a, b)), 2)
    pointwise('ite', lambda a, b, c: Or(And(a, b), And(Not(a), c)), 3)
    pointwise('simplify', lambda a: a, 1)
    pointwise('clean', lambda a: a, 1)

    # mk_const(v): the leaf v
    def mk_const_result(I, args, loc):
        v = args[1]
        if not isinstance(v, VBool): raise Undecidable('mk_const of %r' % (v,), loc)
        if v.t[0] == 'c': return VBdd(('leaf', v.t[1]))
        return VBdd(('app', B + 'mk_const', ('b', v.t)))
    E.add(FnSpec(B + 'mk_const', den=lambda I, a, b=None: a[0][1], origins=lambda I, a: set(), result=mk_const_result,
                 shape_alts=lambda I, x: ('F', 'T')))

    # find(r) === r  (axiom: key == *value, rule E2)
    E.add(FnSpec(B + 'find', result=lambda I, args, loc: args[1]))

    # var(s)
    var_den = lambda I, a, b=None: I.symden(a[0], b)
    E.add(FnSpec(B + 'var', den=var_den, origins=lambda I, a: {('sym', a[0])}, post=post_den(var_den)))

    # mk_choice(t, s, f)
    def mk_choice_result(I, args, loc):
        t, s, f = args[1], args[2], args[3]
        if not (isinstance(t, VBdd) and isinstance(s, VSym) and isinstance(f, VBdd)):
            raise Undecidable('mk_choice arguments', loc)
        I.events.append(('mk_choice', t.term, s.term, f.term, loc))
        return VBdd(('app', B + 'mk_choice', t.term, s.term, f.term))
    mk_choice_den = lambda I, a, b=None: Ite(I.symden(a[1], b), D(I, a[0], b), D(I, a[2], b))
    E.add(FnSpec(B + 'mk_choice', den=mk_choice_den, result=mk_choice_result,
                 origins=lambda I, a: {('sym', a[1])} | I.origins(a[0]) | I.origins(a[2])))

    # ---- counting ----
    def cmp_count_den(I, a, b=None):
        bs, n, cmp = a
        return apply_bool_fn(I, cmp, lin_of(n) - cnt_lin(I, bs))
    E.add(FnSpec(B + 'cmp_count', den=cmp_count_den, origins=lambda I, a: {('list', a[0])},
                 post=post_den(cmp_count_den)))
    aln_den = lambda I, a, b=None: ('le0', lin_of(a[1]) - cnt_lin(I, a[0]))          # cnt >= n
    amn_den = lambda I, a, b=None: ('le0', cnt_lin(I, a[0]) - lin_of(a[1]))          # cnt <= n
    exn_den = lambda I, a, b=None: ('eq0', cnt_lin(I, a[0]) - lin_of(a[1]))          # cnt == n
    for nm, d in (('aln', aln_den), ('amn', amn_den), ('exn', exn_den)):
        E.add(FnSpec(B + nm, den=d, origins=lambda I, a: {('list', a[0])}, post=post_den(d)))

    def ccc_den(I, a, b=None):
        la, lb, n, cmp = a
        return apply_bdd_fn(I, cmp, lb, lin_of(n) + cnt_lin(I, la), b)
    E.add(FnSpec(B + 'cmp_count_compare', den=ccc_den, origins=lambda I, a: {('list', a[0]), ('list', a[1])}, post=post_den(ccc_den)))
    clr_den = lambda I, a, b=None: ('le0', lin_of(a[2]) + cnt_lin(I, a[0]) - cnt_lin(I, a[1]))   # cnt b >= n + cnt a
    cgr_den = lambda I, a, b=None: ('le0', cnt_lin(I, a[1]) - lin_of(a[2]) - cnt_lin(I, a[0]))   # cnt b <= n + cnt a
    E.add(FnSpec(B + 'count_leq_recursive', den=clr_den, origins=lambda I, a: {('list', a[0]), ('list', a[1])}, post=post_den(clr_den)))
    E.add(FnSpec(B + 'count_geq_recursive', den=cgr_den, origins=lambda I, a: {('list', a[0]), ('list', a[1])}, post=post_den(cgr_den)))
    two = lambda I, a: (cnt_lin(I, a[0]), cnt_lin(I, a[1]))
    cmp2 = {
        'count_leq': lambda I, a, b=None: ('le0', two(I, a)[0] - two(I, a)[1]),
        'count_lt': lambda I, a, b=None: ('le0', two(I, a)[0] - two(I, a)[1] + 1),
        'count_geq': lambda I, a, b=None: ('le0', two(I, a)[1] - two(I, a)[0]),
        'count_gt': lambda I, a, b=None: ('le0', two(I, a)[1] - two(I, a)[0] + 1),
        'count_eq': lambda I, a, b=None: ('eq0', two(I, a)[0] - two(I, a)[1]),
    }
    for nm, d in cmp2.items():
        E.add(FnSpec(B + nm, den=d, origins=lambda I, a: {('list', a[0]), ('list', a[1])}, post=post_den(d)))

    E.add(FnSpec('UFB', den=lambda I, a, b=None: ('ufb', a[0], a[1], lin_of(a[2])), origins=lambda I, a: {('list', a[1])}))

    E.add(FnSpec('RAW_CHOICE', den=lambda I, a, b=None: Ite(I.symden(a[1], b), D(I, a[0], b), D(I, a[2], b)),
                 origins=lambda I, a: {('sym', a[1])} | I.origins(a[0]) | I.origins(a[2])))

    # ---- quantifiers ----
    def exists_impl_den(I, a, b=None):
        s, x = a
        if I.cof is not None and b is not None and I.W.rel(s, I.cof) == 'eq':
            return Or(D(I, x, 1), D(I, x, 0))
        return None
    def exists_impl_post(I, params, res):
        o = post_no_panic(I, res, 'S')
        if o: return o
        s, x = params[1].term, params[2].term
        out = [I.E.check_valid(I, lambda b: Iff(D(I, res.term, b), Or(D(I, x, 1), D(I, x, 0))),
                               'S: [[exists_impl(s,b)]] == b|s=1 or b|s=0 (cofactor-pair domain; result = %s)' % show_key(res.term))]
        bad = [show_gen(g) for g in I.gens(res.term) if not I.gen_excludes(g, s)]
        out.append(I.E.check_true(I, not bad, 'O: the quantified symbol does not occur in the result', {'may contain s': bad}))
        out += post_support(I, params, res)
        out += post_mk_choice_order(I)
        out += post_size_change(I, params)
        return out
    E.add(FnSpec(B + 'exists_impl', den=exists_impl_den, cofactor=1, post=exists_impl_post,
                 origins=lambda I, a: {('excl', a[0], a[1])}))

    def ident_post(expected_fn, label):
        def post(I, params, res):
            o = post_no_panic(I, res, 'S')
            if o: return o
            exp = expected_fn(I, params)
            alts = exp if isinstance(exp, list) else [exp]
            got = I.W.rep(res.term) if isinstance(res, VBdd) else None
            return [I.E.check_true(I, got in alts, label, {'got': show_key(got) if got else repr(res), 'expected': ' or '.join(show_key(a) for a in alts)})] + \
                post_mk_choice_order(I) + post_size_change(I, params)
        return post
    def exists_expected(I, params):
        V, x = params[1].term, params[2].term
        if I.list_empty(V): return x
        # either defining equation of the fold (quantifiers commute): eliminate the head last, or first
        return [('app', B + 'exists_impl', ('hd', V), ('app', B + 'exists', ('tl', V), x)),
                ('app', B + 'exists', ('tl', V), ('app', B + 'exists_impl', ('hd', V), x))]
    E.add(FnSpec(B + 'exists', origins=lambda I, a: {('exclL', a[0], a[1])},
                 post=ident_post(exists_expected, 'S: exists(V,b) is the fold: E([],b)=b, E(x::r,b)=exists_impl(x,E(r,b)) or E(r,exists_impl(x,b))')))
    def all_expected(I, params):
        V, x = params[1].term, params[2].term
        return ('app', B + 'not', ('app', B + 'exists', V, ('app', B + 'not', x)))
    E.add(FnSpec(B + 'all', origins=lambda I, a: {('exclL', a[0], a[1])},
                 post=ident_post(all_expected, 'S: all(V,b) is the dual not(exists(V, not(b)))')))

    # ---- model ----
    def model_facts(I, x, a):
        return [lambda b, x=x, a=a: Imp(D(I, x, b), D(I, a[0], b))]
    def model_post(I, params, res):
        o = post_no_panic(I, res, 'S')
        if o: return o
        a = params[1].term
        out = [I.E.check_valid(I, lambda b: Imp(D(I, res.term, b), D(I, a, b)), 'S: [[model(a)]] implies [[a]] (result = %s)' % show_key(res.term))]
        sh = I.shape(a)
        r = I.W.rep(res.term)
        mt = ('app', B + 'model', ('ch', I.W.rep(a), 't')); mf = ('app', B + 'model', ('ch', I.W.rep(a), 'f'))
        if sh in ('F', 'T'):
            out.append(I.E.check_true(I, r == I.W.rep(a), 'S: model of a leaf is that leaf', {'got': show_key(r)}))
        else:
            if r == ('leaf', False):
                ok = I.shape(mt) == 'F' and I.shape(mf) == 'F'
                out.append(I.E.check_true(I, ok, 'S: model returns False only when the models of both children are False',
                                          {'model(true-child)': I.shape(mt), 'model(false-child)': I.shape(mf)}))
            else:
                v = ('chv', I.W.rep(a))
                lit_pos = ('app', B + 'var', v); lit_neg = ('app', B + 'not', lit_pos)
                AND = B + 'and'
                cube = r in (('app', AND, mt, lit_pos), ('app', AND, lit_pos, mt), ('app', AND, lit_neg, mf), ('app', AND, mf, lit_neg))
                nonfalse = (r[2] == mt or r[3] == mt) and I.shape(mt) != 'F' or (r[2] == mf or r[3] == mf) and I.shape(mf) not in ('F',) if r[0] == 'app' and len(r) == 4 else False
                out.append(I.E.check_true(I, cube, 'S: non-False model = one literal of the node variable conjoined with the model of the matching child',
                                          {'got': show_key(r)}))
                out.append(I.E.check_true(I, bool(nonfalse), 'S: the child model that is conjoined was tested to be different from False', {'got': show_key(r)}))
        out += post_support(I, params, res)
        out += post_mk_choice_order(I)
        out += post_size_change(I, params)
        return out
    E.add(FnSpec(B + 'model', facts=model_facts, origins=lambda I, a: I.origins(a[0]), post=model_post))

    # ---- infer ----
    def infer_post(I, params, res):
        o = post_no_panic(I, res, 'S')
        if o: return o
        a, s = params[1].term, params[2].term
        ff = ('app', B + 'implies', a, ('app', B + 'var', s))
        sh = I.shape(ff)
        ok = False; got = repr(res)
        if isinstance(res, VTuple) and len(res.items) == 2 and all(isinstance(x, VBool) and x.t[0] == 'c' for x in res.items):
            got = (res.items[0].t[1], res.items[1].t[1])
            want = {'C': (False, False), 'T': (True, True), 'F': (True, False)}.get(sh)
            ok = want is not None and got == want
        return [I.E.check_true(I, ok, 'S: infer(a,v) = (is_leaf(ff), ff is True) for ff = implies(a, var v)', {'shape(ff)': sh, 'got': got})]
    E.add(FnSpec(B + 'infer', post=infer_post))

    # ---- retain_choice_bottom_up ----
    TTE = 'rsbdd::truth_table::TruthTableEntry'
    def filt_variant(I, ft):
        if ft[0] == 'cons': return ft[2]
        variants = [x['name'] for x in I.E.variants(TTE)]
        return I.W.decide(('variant', ft), variants)
    def retain_facts(I, x, a):
        fv = filt_variant(I, a[1])
        if fv == 'True': return [lambda b: Imp(D(I, a[0], b), D(I, x, b))]
        if fv == 'False': return [lambda b: Imp(D(I, x, b), D(I, a[0], b))]
        return [lambda b: Iff(D(I, x, b), D(I, a[0], b))]
    def retain_post(I, params, res):
        o = post_no_panic(I, res, 'S')
        if o: return o
        src, ft = params[1].term, params[2].term
        fv = filt_variant(I, ft)
        if fv == 'True':
            out = [I.E.check_valid(I, lambda b: Imp(D(I, src, b), D(I, res.term, b)), 'S: filter True: [[f]] implies [[retain(f)]] (result = %s)' % show_key(res.term))]
        elif fv == 'False':
            out = [I.E.check_valid(I, lambda b: Imp(D(I, res.term, b), D(I, src, b)), 'S: filter False: [[retain(f)]] implies [[f]] (result = %s)' % show_key(res.term))]
        else:
            out = [I.E.check_true(I, I.W.rep(res.term) == I.W.rep(src), 'S: filter Any: retain(f) is f itself', {'got': show_key(res.term)})]
        out += post_support(I, params, res)
        out += post_mk_choice_order(I)
        out += post_size_change(I, params)
        return out
    E.add(FnSpec(B + 'retain_choice_bottom_up', facts=retain_facts, origins=lambda I, a: I.origins(a[0]), post=retain_post))

BDD_SCOPE = {
    'C03': ['and', 'or', 'not', 'implies', 'ite', 'eq', 'xor', 'nor', 'nand', 'var'],
    'C04': ['exists_impl', 'exists', 'all'],
    'C05': ['cmp_count', 'aln', 'amn', 'exn', 'cmp_count_compare', 'count_leq_recursive', 'count_geq_recursive',
            'count_leq', 'count_lt', 'count_geq', 'count_gt', 'count_eq'],
    'C07': ['model', 'infer'],
    'C20': ['retain_choice_bottom_up'],
}


# ------------------------------------------------------------------------------------------------
# structural posts for the node-construction layer (rules E2 / R2), used by C02 and C13

def install_structure(E):
    NODES = ('cellval', ('fld', ('p', 'self'), '', 'nodes'))
    SIMP = B + 'simplify'

    def simplify_post(I, params, res):
        o = post_no_panic(I, res, 'E2')
        if o: return o
        a = I.W.rep(params[1].term)
        r = I.W.rep(res.term)
        if I.shape(a) == 'C' and I.W.rep(('ch', a, 't')) == I.W.rep(('ch', a, 'f')):
            exp = I.W.rep(('ch', a, 't'))
            what = 'a node whose two outcomes are the same diagram is replaced by that diagram'
        else:
            exp = a
            what = 'any other node is returned unchanged'
            # the equality test must actually have been made for Choice nodes
            if I.shape(a) == 'C':
                tested = any(k[0] == 'beq' and set(k[1:]) == {('ch', a, 't'), ('ch', a, 'f')} for k in I.W.used)
                if not tested:
                    return [I.E.check_true(I, False, 'E2: simplify never compares the two children of a Choice node')]
        return [I.E.check_true(I, r == exp, 'E2: simplify: ' + what, {'got': show_key(r), 'expected': show_key(exp)}),
                I.E.check_valid(I, lambda b: Iff(D(I, r, b), D(I, a, b)), 'S: [[simplify(a)]] == [[a]]')]
    E.specs[SIMP].post = simplify_post

    def mk_choice_post(I, params, res):
        o = post_no_panic(I, res, 'E2')
        if o: return o
        t, s, f = params[1].term, params[2].term, params[3].term
        ins = ('app', SIMP, ('app', 'RAW_CHOICE', t, s, f))
        r = I.W.rep(res.term) if isinstance(res, VBdd) else None
        # simplify written out in place (`if *t == *f { t } else { Rc::new(Choice(t, s, f)) }`): in a world that has decided the comparison of
        # the two children, simplify(Choice(t,s,f)) is t, respectively the node itself
        tr, fr = I.W.rep(t), I.W.rep(f)
        beq = ('beq',) + tuple(sorted((tr, fr), key=repr))
        if r != ins:
            if tr == fr and any(k[0] == 'beq' for k in I.W.used): ins = tr
            elif I.W.dec.get(beq) is False and beq in I.W.used: ins = I.W.rep(('app', 'RAW_CHOICE', t, s, f))
        out = [I.E.check_true(I, r == ins, 'E2: mk_choice returns simplify(Choice(t,s,f)) - a table hit for it or the node just inserted', {'got': show_key(r) if r else repr(res), 'expected': show_key(ins)})]
        inserts = [ev for ev in I.events if ev[0] == 'table_insert']
        gets = [ev for ev in I.events if ev[0] == 'table_get']
        hit = I.W.dec.get(('opt', ('get', NODES, ins)))
        out.append(I.E.check_true(I, len(gets) == 1 and gets[0][1] == NODES and gets[0][2] == ins, 'E2: exactly one look-up of the simplified node in the unique table', {'gets': [show_key(g[2]) for g in gets]}))
        if hit == 'some':
            out.append(I.E.check_true(I, not inserts, 'E2: no insertion when the node is already in the table', {'inserts': len(inserts)}))
        else:
            ok = len(inserts) == 1 and inserts[0][1] == NODES and (inserts[0][2] == ins or I.W.rep(inserts[0][2]) == I.W.rep(ins)) and (inserts[0][3] == ins or I.W.rep(inserts[0][3]) == I.W.rep(ins))
            out.append(I.E.check_true(I, ok, 'E2: a missing node is inserted once with key == *value', {'inserts': [(show_key(i[2]), show_key(i[3])) for i in inserts]}))
        muts = [ev for ev in I.events if ev[0] == 'cell_borrow' and ev[2]]
        out.append(I.E.check_true(I, len(muts) == 1, 'E3: one mutable borrow of the table per mk_choice', {'n': len(muts)}))
        out.append(I.E.check_valid(I, lambda b: Iff(D(I, res.term, b), Ite(I.symden(s, b), D(I, t, b), D(I, f, b))), 'S: [[mk_choice(t,s,f)]] == ite(s, [[t]], [[f]])'))
        return out
    E.specs[B + 'mk_choice'].post = mk_choice_post

    def mk_const_post(I, params, res):
        o = post_no_panic(I, res, 'R2')
        if o: return o
        v = params[1]
        dec = I.W.dec.get(('bool', v.t))
        r = I.W.rep(res.term) if isinstance(res, VBdd) else None
        return [I.E.check_true(I, dec is not None and r == ('leaf', dec), 'R2: mk_const(v) is the leaf v read back from the table', {'v': dec, 'got': show_key(r) if r else repr(res)})]
    E.specs[B + 'mk_const'].post = mk_const_post

    def find_post(I, params, res):
        if isinstance(res, Diverge):
            return [I.E.check_true(I, True, 'E2: find(r) on a node that is not in the table reports it by panicking (documented precondition)')]
        r = I.W.rep(res.term) if isinstance(res, VBdd) else None
        return [I.E.check_true(I, r == I.W.rep(params[1].term), 'E2: find(r) is structurally r', {'got': show_key(r) if r else repr(res)})]
    E.specs[B + 'find'].post = find_post

    def new_post(I, params, res):
        o = post_no_panic(I, res, 'E3')
        if o: return o
        inserts = sorted(((ev[2], ev[3]) for ev in I.events if ev[0] == 'table_insert'), key=repr)
        tables = set(ev[1] for ev in I.events if ev[0] == 'table_insert')
        want = sorted([(('leaf', True), ('leaf', True)), (('leaf', False), ('leaf', False))], key=repr)
        out = [I.E.check_true(I, inserts == want and len(tables) == 1, 'E3: new() seeds exactly {True -> Rc(True), False -> Rc(False)}', {'inserts': [(show_key(a), show_key(b)) for a, b in inserts]})]
        ok = isinstance(res, VCons) and res.variant == 'BDDEnv' and len(res.fields) == 1 and isinstance(res.fields[0], VCell) \
            and I.term_of(I.cells.get(res.fields[0].key)) in tables
        out.append(I.E.check_true(I, ok, 'E3: the seeded table is the one stored in the new environment', {'result': repr(res)}))
        return out
    E.add(FnSpec(B + 'new', post=new_post, result=lambda I, args, loc: VOpaque(('newenv', loc))))

def install_fp(E):
    """C06(a): fp(a, t) returns the first element of a, t(a), t(t(a)), ... that t maps to itself (loop-shape rule, one symbolic iteration)"""
    def fp_post(I, params, res):
        out = []
        a = params[1].term
        inits = [ev for ev in I.events if ev[0] == 'loop_init']
        ok = len(inits) == 1 and I.W.rep(inits[0][2]) == I.W.rep(a)
        out.append(I.E.check_true(I, ok, 'FP: the iteration state starts as the argument a', {'loop-carried': [(i[1], show_key(i[2])) for i in inits]}))
        if not ok: return out
        sv = inits[0][1]
        s = ('p', sv.split('#')[0] + '@iter')
        ts = ('app', 'UFT', params[2].name, s)
        key = ('beq',) + tuple(sorted((ts, s), key=repr))
        dec = I.W.dec.get(key)
        calls = [k for k in I.W.used if k[0] == 'beq']
        if res == 'LOOP_CONTINUE':
            nxt = [ev for ev in I.events if ev[0] == 'loop_continue'][0][1]
            out.append(I.E.check_true(I, dec is False, 'FP: the loop continues only when t(s) differs from s', {'decision': dec, 'tests': [str(c) for c in calls]}))
            out.append(I.E.check_true(I, nxt.get(sv) is not None and I.W.rep(nxt[sv]) == I.W.rep(ts), 'FP: the next state is t(s)', {'next': show_key(nxt.get(sv)) if nxt.get(sv) else None}))
            for ev in I.events:
                if ev[0] == 'loop_invariant':
                    _, v2, v1, fn_ = ev
                    okinv = nxt.get(v2) is not None and nxt.get(v1) is not None and I.W.rep(nxt[v2]) == I.W.rep(('app', 'UFT', fn_, nxt[v1]))
                    out.append(I.E.check_true(I, okinv, 'FP: the look-ahead variable is again t(state) when the loop continues', {'next': show_key(nxt.get(v2)) if nxt.get(v2) else None}))
        elif isinstance(res, Diverge):
            out.append(I.E.check_true(I, False, 'FP: panic inside the iteration', loc=res.loc))
        else:
            out.append(I.E.check_true(I, dec is True, 'FP: the loop exits only when t(s) is structurally s', {'decision': dec}))
            r = I.W.rep(res.term) if isinstance(res, VBdd) else None
            out.append(I.E.check_true(I, r is not None and r in (I.W.rep(s), I.W.rep(ts)), 'FP: the value returned is the state that t maps to itself', {'got': show_key(r) if r else repr(res)}))
        ncalls = len([ev for ev in I.events if ev[0] == 'fncall'])
        return out
    sp = FnSpec(B + 'fp', post=fp_post)
    sp.loop_mode = True
    sp.result = E.specs[B + 'fp'].result if (B + 'fp') in E.specs else None
    E.specs[B + 'fp'] = sp

STRUCT_FNS = ['simplify', 'mk_choice', 'mk_const', 'find', 'new', 'clean']


# ------------------------------------------------------------------------------------------------
# small predicates that other rules take at face value (X2's predicate evaluator, X4's `is_any` test): verify their bodies

def install_helpers(E):
    BDDT = 'rsbdd::bdd::BDD::'
    TTE = 'rsbdd::truth_table::TruthTableEntry'
    def bdd_pred(name, want):
        def post(I, params, res):
            o = post_no_panic(I, res, 'HELPER')
            if o: return o
            sh = I.shape(params[0].term)
            if sh is None: sh = I.decide_shape(params[0].term)
            got = res.t[1] if isinstance(res, VBool) and res.t[0] == 'c' else None
            return [I.E.check_true(I, got is not None and got == want(sh), 'HELPER: BDD::%s answers %s' % (name, name.replace('_', ' ')), {'shape': sh, 'returned': repr(res)})]
        sp = FnSpec(BDDT + name, post=post); sp.inline_calls = True
        E.add(sp)
    bdd_pred('is_choice', lambda s: s == 'C')
    bdd_pred('is_const', lambda s: s != 'C')
    bdd_pred('is_true', lambda s: s == 'T')
    bdd_pred('is_false', lambda s: s == 'F')
    def tte_pred(name, variant):
        def post(I, params, res):
            o = post_no_panic(I, res, 'HELPER')
            if o: return o
            variants = [x['name'] for x in I.E.variants(TTE)]
            v = I.W.decide(('variant', params[0].term), variants)
            got = res.t[1] if isinstance(res, VBool) and res.t[0] == 'c' else None
            return [I.E.check_true(I, got is not None and got == (v == variant), 'HELPER: TruthTableEntry::%s is true exactly for %s' % (name, variant), {'variant': v, 'returned': repr(res)})]
        sp = FnSpec(TTE + '::' + name, post=post); sp.inline_calls = True
        E.add(sp)
    tte_pred('is_true', 'True'); tte_pred('is_false', 'False'); tte_pred('is_any', 'Any')

HELPER_FNS = ['rsbdd::bdd::BDD::is_choice', 'rsbdd::bdd::BDD::is_const', 'rsbdd::bdd::BDD::is_true', 'rsbdd::bdd::BDD::is_false',
              'rsbdd::truth_table::TruthTableEntry::is_true', 'rsbdd::truth_table::TruthTableEntry::is_false', 'rsbdd::truth_table::TruthTableEntry::is_any']

import sys, time
sys.path.insert(0, '/verif/rules')
from facts import Facts
from engine import Engine
from absint import Undecidable
import spec_bdd
F = Facts(sys.argv[1])
E = Engine(F)
spec_bdd.install(E); spec_bdd.install_structure(E); spec_bdd.install_fp(E)
names = sys.argv[2:]
for n in names:
    full = spec_bdd.B + n
    t0 = time.time()
    try:
        res = E.explore(full)
    except Undecidable as u:
        print('UNDECIDABLE', n, u); continue
    nob = 0; bad = 0
    for (I, params, r, obls) in res:
        for o in obls:
            nob += 1
            if not o.ok:
                bad += 1
                print('  FAIL', n, '|', o.label, '| world:', o.world, '|', o.detail, o.loc)
    print('%-28s worlds=%d obligations=%d failed=%d  %.2fs' % (n, len(res), nob, bad, time.time() - t0))

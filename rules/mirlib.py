"""Helpers over dumped MIR bodies: CFG, dominators, local definitions, place rendering."""
from facts import canon

def succs(block, include_unwind=False):
    t = block['term']
    k = t['k']
    out = []
    if k == 'Goto': out = [t['target']]
    elif k == 'SwitchInt': out = [x[1] for x in t['targets']] + [t['otherwise']]
    elif k in ('Call', 'Drop', 'Assert'):
        if t.get('target') is not None: out = [t['target']]
        if include_unwind and isinstance(t.get('unwind'), int): out.append(t['unwind'])
    return out

def callee(t):
    c = t.get('callee')
    if not c: return None
    return canon(c.get('res') or c.get('def'))

def callee_decl(t):
    c = t.get('callee')
    if not c: return None
    return canon(c.get('def'))

def dominators(body):
    """immediate-dominator-free formulation: dom[b] = set of blocks dominating b (non-cleanup CFG from bb0)"""
    n = len(body['blocks'])
    preds = {i: set() for i in range(n)}
    reach = set(); st = [0]
    while st:
        b = st.pop()
        if b in reach: continue
        reach.add(b)
        for s in succs(body['blocks'][b]):
            preds[s].add(b); st.append(s)
    dom = {b: set(reach) for b in reach}
    dom[0] = {0}
    changed = True
    while changed:
        changed = False
        for b in sorted(reach):
            if b == 0: continue
            ps = [dom[p] for p in preds[b] if p in reach]
            new = set.intersection(*ps) | {b} if ps else {b}
            if new != dom[b]:
                dom[b] = new; changed = True
    return dom, preds, reach

def edge_dominates(body, dom, preds, src, dst, site):
    """every path from entry to block `site` goes through the CFG edge src->dst"""
    if site == dst and preds[dst] == {src}: return True
    # dst must dominate site, and dst's only predecessor (on paths to site) is src
    if dst not in dom.get(site, ()): return False
    return preds[dst] == {src}

def local_defs(body):
    """local -> list of ('stmt', block, idx, stmt) | ('call', block, term) assignments to the whole local"""
    defs = {}
    for bi, b in enumerate(body['blocks']):
        for si, s in enumerate(b['stmts']):
            if s['k'] == 'Assign' and not s['place']['proj']:
                defs.setdefault(s['place']['local'], []).append(('stmt', bi, si, s))
        t = b['term']
        if t['k'] == 'Call' and not t['dest']['proj']:
            defs.setdefault(t['dest']['local'], []).append(('call', bi, t))
    return defs

def resolve_place(body, defs, operand, depth=0):
    """follow `_x = &P` / `_x = copy _y` / `_x = deref-copy` single definitions from an operand to the place it refers to.
    Returns a place dict (local + proj) or None."""
    if operand.get('k') not in ('Copy', 'Move'): return None
    place = {'local': operand['local'], 'proj': list(operand['proj'])}
    return resolve_local_place(body, defs, place, depth)

def resolve_local_place(body, defs, place, depth=0):
    if depth > 12: return place
    l = place['local']
    ds = defs.get(l, [])
    if l <= body['arg_count'] and l != 0: return place
    if len(ds) != 1 or ds[0][0] != 'stmt': return place
    rv = ds[0][3]['rv']
    if rv['k'] == 'Ref' or rv['k'] == 'RawPtr':
        inner = rv['place']
        proj = list(place['proj'])
        # &P then *  cancels
        if proj and proj[0] == 'Deref': proj = proj[1:]
        elif proj: return place
        else:
            # the local *is* a reference to inner; callers treat the result as "refers to inner"
            return resolve_local_place(body, defs, {'local': inner['local'], 'proj': list(inner['proj']) + proj, 'ref': True}, depth + 1)
        return resolve_local_place(body, defs, {'local': inner['local'], 'proj': list(inner['proj']) + proj}, depth + 1)
    if rv['k'] == 'Use' and rv['op'].get('k') in ('Copy', 'Move'):
        o = rv['op']
        return resolve_local_place(body, defs, {'local': o['local'], 'proj': list(o['proj']) + list(place['proj'])}, depth + 1)
    if rv['k'] == 'CopyForDeref':
        o = rv['place']
        return resolve_local_place(body, defs, {'local': o['local'], 'proj': list(o['proj']) + list(place['proj'])}, depth + 1)
    return place

def local_name(body, l):
    loc = body['locals'][l]
    return loc.get('name') or ('_%d' % l)

def field_name(F, ty, idx, variant=None):
    """name of field idx of struct type `ty` (type json) using ADT facts"""
    t = ty
    while t.get('k') in ('Ref', 'RawPtr'): t = t['to']
    if t.get('k') == 'Adt':
        d = canon(t['def'])
        if d in ('std::rc::Rc', 'std::boxed::Box') and t['args']: return field_name(F, t['args'][0], idx, variant)
        for c in F.crates:
            a = c.adts.get(d)
            if a:
                v = a['variants'][variant or 0]
                if idx < len(v['fields']): return v['fields'][idx]['name']
    return str(idx)

def place_str(F, body, place):
    l = place['local']
    s = local_name(body, l)
    ty = body['locals'][l]['ty']
    for p in place['proj']:
        if p == 'Deref':
            t = ty
            if t.get('k') in ('Ref', 'RawPtr'): ty = t['to']
            elif t.get('k') == 'Adt' and t.get('args'): ty = t['args'][0]
            continue
        if isinstance(p, dict) and 'Field' in p:
            fn = field_name(F, ty, p['Field'])
            s += '.' + fn
            # advance type
            t = ty
            while t.get('k') in ('Ref', 'RawPtr'): t = t['to']
            nt = None
            if t.get('k') == 'Adt':
                d = canon(t['def'])
                for c in F.crates:
                    a = c.adts.get(d)
                    if a and p['Field'] < len(a['variants'][0]['fields']): nt = a['variants'][0]['fields'][p['Field']]['ty']
            elif t.get('k') == 'Tuple' and p['Field'] < len(t['of']): nt = t['of'][p['Field']]
            ty = nt or {'k': 'Other', 's': '?'}
        elif isinstance(p, dict) and 'Index' in p: s += '[%s]' % local_name(body, p['Index'])
        elif isinstance(p, dict) and 'Downcast' in p: s += ' as variant#%d' % p['Downcast']
        elif isinstance(p, dict) and 'ConstantIndex' in p: s += '[%d]' % p['ConstantIndex']
        elif isinstance(p, dict) and 'Subslice' in p: s += '[%d..]' % p['Subslice']
    return s

def base_struct(body, place):
    """(struct type name the first Field projection applies to, tuple of field indices)"""
    ty = body['locals'][place['local']]['ty']
    fields = []
    sname = None
    for p in place['proj']:
        if p == 'Deref':
            if ty.get('k') in ('Ref', 'RawPtr'): ty = ty['to']
            elif ty.get('k') == 'Adt' and ty.get('args'): ty = ty['args'][0]
        elif isinstance(p, dict) and 'Field' in p:
            t = ty
            while t.get('k') in ('Ref', 'RawPtr'): t = t['to']
            if sname is None and t.get('k') == 'Adt': sname = canon(t['def'])
            fields.append(p['Field'])
            ty = {'k': 'Other', 's': '?'}
    return sname, tuple(fields)

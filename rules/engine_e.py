"""Engine E (effects / ownership / who-may-X) and H (key agreement of Eq/Ord/Hash) over resolved THIR."""

from facts import canon, walk, callee_name, callee_decl, pp

BDD = 'rsbdd::bdd::BDD'
ENV = 'rsbdd::bdd::BDDEnv'
B = ENV + '::'
FROM_IMPL = 'rsbdd::<bdd::BDD as std::convert::From>::from'

def all_bodies(F, include_tests=False):
    for c in F.crates:
        if c.kind == 'test' and not include_tests: continue
        for name, t in c.thir.items():
            yield c, name, t

def is_derived_fn(c, name):
    f = c.fns.get(name)
    return bool(f and f.get('derived'))

def ty_is_rc_bdd(ty):
    return ty.get('k') == 'Adt' and canon(ty['def']) == 'std::rc::Rc' and ty['args'] and ty['args'][0].get('k') == 'Adt' and canon(ty['args'][0]['def']) == BDD

def ty_mentions(ty, defname, depth=0):
    if not isinstance(ty, dict) or depth > 8: return False
    if ty.get('k') in ('Adt', 'FnDef') and canon(ty.get('def', '')) == defname: return True
    for key in ('args', 'of'):
        v = ty.get(key)
        if isinstance(v, list):
            if any(ty_mentions(x, defname, depth + 1) for x in v): return True
        elif isinstance(v, dict) and ty_mentions(v, defname, depth + 1): return True
    if isinstance(ty.get('to'), dict): return ty_mentions(ty['to'], defname, depth + 1)
    return False

def strip(e):
    """look through borrows / derefs / uses"""
    while isinstance(e, dict) and e.get('k') in ('Borrow', 'Deref', 'Use', 'PointerCoercion', 'NeverToAny'):
        e = e.get('arg') or e.get('source')
    return e

def is_nodes_field(e):
    e = strip(e)
    return isinstance(e, dict) and e.get('k') == 'Field' and e.get('field_name') == 'nodes' and canon(e.get('adt', '')) == ENV

# ------------------------------------------------------------------------------------------------

def rule_E1(F, R, include_tests=False):
    """`BDD::Choice(..)` constructor expressions only in mk_choice and in the From<BDD<NamedSymbol>> conversion"""
    allowed = {B + 'mk_choice', FROM_IMPL}
    for c, name, t in all_bodies(F, include_tests):
        if is_derived_fn(c, name): continue
        for e in walk(t['body']):
            if e['k'] == 'Adt' and canon(e['adt']) == BDD and e['variant'] == 'Choice':
                R.count('E1:Choice-constructor-sites')
                ok = name in allowed
                if not ok:
                    # a new private helper that only the allowed functions call works on their behalf (`index_symbols` behind the From conversion)
                    import facts as _facts
                    base_ = name.split('::{closure')[0]
                    if base_ not in _facts.baseline_fns():
                        roots = _facts.baseline_roots(c, base_)
                        ok = bool(roots) and roots <= allowed
                R.obligation(ok, 'E1 %s %s' % (name, e['loc']))
                if not ok:
                    R.violation('%s / E1 / BDD::Choice constructor' % name, 'E1',
                                'a decision node is constructed outside mk_choice: it bypasses reduction and the unique table', e['loc'])

MUTATING_RC = ('get_mut', 'make_mut', 'try_unwrap', 'into_inner', 'unwrap_or_clone', 'get_mut_unchecked', 'from_raw', 'decrement_strong_count')
TABLE_READS = ('get', 'len', 'contains_key', 'iter', 'values', 'keys', 'is_empty', 'get_key_value')
CELL_WRITES = ('borrow_mut', 'replace', 'swap', 'take', 'get_mut', 'into_inner', 'set', 'replace_with', 'as_ptr', 'try_borrow_mut', 'update')

def rule_E3(F, R, include_tests=False):
    """single writer of the unique table; no removal; struct literal only in new()"""
    for c, name, t in all_bodies(F, include_tests):
        if is_derived_fn(c, name): continue
        for e in walk(t['body']):
            if e['k'] == 'Call':
                cn = callee_name(e) or ''
                # (a) RefCell methods on the `nodes` field
                if cn.startswith('std::cell::RefCell::') and e['args'] and is_nodes_field(e['args'][0]):
                    m = cn.split('::')[-1]
                    if m == 'borrow':
                        R.count('E3:nodes.borrow')
                    else:
                        R.count('E3:nodes.' + m)
                        ok = (m == 'borrow_mut' and name == B + 'mk_choice')
                        R.obligation(ok, 'E3 %s %s' % (name, e['loc']))
                        if not ok:
                            R.violation('%s / E3 / nodes.%s' % (name, m), 'E3', 'the unique table is opened for writing outside mk_choice (RefCell::%s)' % m, e['loc'])
                # (b) HashMap methods whose receiver is a map of diagram nodes
                if cn.startswith('std::collections::HashMap::') and e['args']:
                    rty = e['args'][0]['ty']
                    if ty_mentions(rty, BDD):
                        m = cn.split('::')[-1]
                        R.count('E3:table.' + m)
                        ok = m in TABLE_READS or (m == 'insert' and name in (B + 'mk_choice', B + 'new'))
                        R.obligation(ok, 'E3 %s %s' % (name, e['loc']))
                        if not ok:
                            R.violation('%s / E3 / table.%s' % (name, m), 'E3', 'HashMap::%s on the unique table outside its owner (only mk_choice/new may insert; nothing may remove)' % m, e['loc'])
            if e['k'] == 'Adt' and canon(e['adt']) == ENV:
                R.count('E3:BDDEnv-literal')
                ok = name == B + 'new'
                R.obligation(ok, 'E3 lit %s' % name)
                if not ok:
                    R.violation('%s / E3 / BDDEnv literal' % name, 'E3', 'an environment is built by struct literal outside new(): the table may lack the two leaves', e['loc'])
            if e['k'] == 'Field' and e.get('field_name') == 'nodes' and canon(e.get('adt', '')) == ENV:
                R.count('E3:nodes-field-uses')
            if e['k'] == 'Assign' and is_nodes_field(e['lhs']):
                R.obligation(False, 'E3 assign %s' % name)
                R.violation('%s / E3 / nodes assigned' % name, 'E3', 'the table field is overwritten', e['loc'])

def rule_E3_field_flow(F, R, include_tests=False):
    """every syntactic use of the `nodes` field is the receiver of RefCell::borrow / borrow_mut (no alias escapes)"""
    for c, name, t in all_bodies(F, include_tests):
        if is_derived_fn(c, name): continue
        uses = 0; recv = 0
        for e in walk(t['body']):
            if e['k'] == 'Field' and e.get('field_name') == 'nodes' and canon(e.get('adt', '')) == ENV: uses += 1
            if e['k'] == 'Call' and (callee_name(e) or '').startswith('std::cell::RefCell::') and e['args'] and is_nodes_field(e['args'][0]): recv += 1
        if uses != recv:
            R.obligation(False, 'E3 flow %s' % name)
            R.violation('%s / E3 / nodes escapes' % name, 'E3', 'the `nodes` cell is used other than as the receiver of a RefCell method (%d uses, %d receivers): an alias may escape' % (uses, recv), t['span']['loc'])
        elif uses:
            R.obligation(True, 'E3 flow %s' % name)

def rule_E4(F, R, include_tests=False):
    """fresh Rc<BDD> allocations only where nodes are born; no unique access to a shared node; nodes are deeply immutable"""
    allowed_new = {B + 'new', B + 'mk_choice', FROM_IMPL}
    for c, name, t in all_bodies(F, include_tests):
        if is_derived_fn(c, name): continue
        for e in walk(t['body']):
            if e['k'] != 'Call': continue
            cn = callee_name(e) or ''
            decl = callee_decl(e) or ''
            if cn == 'std::rc::Rc::new' and ty_is_rc_bdd(e['ty']):
                R.count('E4:Rc<BDD>::new-sites')
                import facts as _facts
                roots = _facts.baseline_roots(c, name)
                ok = name in allowed_new or (name.split('::{closure')[0] not in _facts.baseline_fns() and bool(roots) and roots <= set(allowed_new))
                R.obligation(ok, 'E4 new %s %s' % (name, e['loc']))
                if not ok:
                    R.violation('%s / E4 / Rc::new' % name, 'E4', 'a diagram node is allocated outside mk_choice/new/From: it is not in the unique table', e['loc'])
            if decl == 'std::default::Default::default' and ty_is_rc_bdd(e['ty']):
                R.count('E4:Rc<BDD>::default-sites')
                # the CLI's placeholder before the first evaluation: in main, or in a new helper that main was split into
                helpers_of_main = {callee for (caller, callee) in getattr(c, 'inlined', []) if caller == 'rsbdd::main'}
                ok = (c.name == 'rsbdd' and c.kind == 'executable' and (name == 'rsbdd::main' or name in helpers_of_main))
                R.obligation(ok, 'E4 default %s' % name)
                if not ok:
                    R.violation('%s / E4 / Rc::default' % name, 'E4', 'a fresh leaf outside the table is created', e['loc'])
            if cn.startswith('std::rc::Rc::') and cn.split('::')[-1] in MUTATING_RC and e['args'] and ty_mentions(e['args'][0]['ty'], BDD):
                R.obligation(False, 'E4 mut %s' % name)
                R.violation('%s / E4 / Rc::%s' % (name, cn.split('::')[-1]), 'E4', 'unique/mutable access to a shared diagram node', e['loc'])
        for e in walk(t['body']):
            if e['k'] == 'Block' and e.get('unsafe') == 'ExplicitUnsafe' and not e.get('exp', '').startswith('Macro'):
                R.obligation(False, 'E4 unsafe %s' % name)
                R.violation('%s / E4 / unsafe block' % name, 'E4', 'unsafe block of local origin', e['loc'])
    # deep immutability of node types
    lib = F.lib()
    for ty in ('bdd::BDD<usize>', 'bdd::BDD<symbols::NamedSymbol>', 'symbols::NamedSymbol'):
        fr = None
        for c in F.crates:
            if ty in c.freeze: fr = c.freeze[ty]
        R.count('E4:freeze-queries')
        R.obligation(fr is True, 'E4 freeze ' + ty)
        if fr is not True:
            R.violation('rsbdd / E4 / Freeze / ' + ty, 'E4', 'type %s is not Freeze (interior mutability inside a diagram node) or the query is missing' % ty)
    bad = deep_interior_mut(lib, 'rsbdd::bdd::BDD') + deep_interior_mut(lib, 'rsbdd::symbols::NamedSymbol')
    R.count('E4:deep-field-walks', 2)
    R.obligation(not bad, 'E4 deep')
    for b in bad:
        R.violation('rsbdd / E4 / interior mutability / ' + b, 'E4', 'field type %s reachable from a diagram node allows mutation through a shared reference' % b)

INTERIOR = ('std::cell::', 'std::sync::Mutex', 'std::sync::RwLock', 'std::sync::atomic', 'std::sync::OnceLock', 'std::sync::Once', 'std::sync::mpsc', 'core::cell::', 'core::sync::atomic')

def deep_interior_mut(lib, adt, seen=None, path=''):
    seen = seen if seen is not None else set()
    if adt in seen: return []
    seen.add(adt)
    a = lib.adts.get(adt)
    if a is None: return []
    out = []
    def visit(ty, where):
        k = ty.get('k')
        if k == 'Adt':
            d = canon(ty['def'])
            if any(d.startswith(p) for p in INTERIOR): out.append('%s: %s' % (where, ty['s']))
            if d.startswith('rsbdd::'): out.extend(deep_interior_mut(lib, d, seen, where))
            for x in ty.get('args', []): visit(x, where)
        elif k in ('Ref', 'RawPtr'): visit(ty['to'], where)
        elif k in ('Slice', 'Array'): visit(ty['of'], where)
        elif k == 'Tuple':
            for x in ty['of']: visit(x, where)
        elif k in ('Dyn', 'FnPtr', 'Closure'): out.append('%s: %s (opaque)' % (where, ty['s']))
    for v in a['variants']:
        for f in v['fields']:
            visit(f['ty'], '%s::%s.%s' % (adt.split('::')[-1], v['name'], f['name']))
    return out

DENY_PREFIX = ('std::time::', 'std::env::', 'rand::', 'std::thread::', 'std::sync::atomic', 'std::fs::', 'std::process::', 'std::net::',
               'std::cell::Cell::', 'std::cell::OnceCell::', 'std::sync::Mutex', 'std::sync::RwLock', 'std::sync::OnceLock', 'std::io::stdin', 'std::collections::hash_map::RandomState')

def reachable_local(F, entries):
    """local functions (canonical names) reachable from entries through resolved calls, closures included"""
    lib = F.lib()
    seen = set(); work = list(entries)
    while work:
        n = work.pop()
        if n in seen: continue
        t = None
        for c in F.crates:
            if n in c.thir: t = c.thir[n]; break
        if t is None: continue
        seen.add(n)
        for e in walk(t['body']):
            if e['k'] == 'Call':
                for x in (callee_name(e), callee_decl(e)):
                    if x and x.startswith('rsbdd'): work.append(x)
            elif e['k'] == 'Closure':
                work.append(canon(e['def']))
            elif e['k'] == 'ZstLiteral' and 'fn' in e:
                x = canon(e['fn'].get('res') or e['fn']['def'])
                if x.startswith('rsbdd'): work.append(x)
    return seen

def rule_E6(F, R):
    """purity: nothing reachable from a BDDEnv operation / the evaluator touches hidden mutable state"""
    lib = F.lib()
    entries = [n for n in lib.thir if n.startswith(B) and '{closure' not in n] + ['rsbdd::parser::ParsedFormula::eval', 'rsbdd::parser::ParsedFormula::eval_recursive']
    reach = reachable_local(F, entries)
    R.count('E6:functions-reachable-from-ops', len(reach))
    ALLOWED_CELLS = {'nodes', 'definitions'}
    for n in sorted(reach):
        t = lib.thir.get(n)
        if t is None: continue
        if is_derived_fn(lib, n): continue
        fn_ok = True
        for e in walk(t['body']):
            bad = None
            if e['k'] == 'StaticRef':
                st = [s for s in lib.statics if canon(s['def']) == canon(e['def'])]
                if e.get('mutable') or (st and (st[0]['mutable'] or not st[0]['freeze'])):
                    bad = 'static with mutable state ' + e['def']
                elif not st and not canon(e['def']).startswith('rsbdd'):
                    bad = None
            elif e['k'] == 'ThreadLocalRef':
                bad = 'thread-local ' + e['def']
            elif e['k'] == 'Call':
                cn = callee_name(e) or ''
                if any(cn.startswith(p) for p in DENY_PREFIX):
                    bad = 'call to ' + cn
                elif cn.startswith('std::cell::RefCell::') and e['args']:
                    f = strip(e['args'][0])
                    fld = f.get('field_name') if isinstance(f, dict) and f.get('k') == 'Field' else None
                    R.count('E6:RefCell-uses')
                    if fld not in ALLOWED_CELLS and cn.split('::')[-1] != 'new':
                        bad = 'RefCell state other than the unique table / definitions: ' + pp(e)[:80]
            if bad:
                fn_ok = False
                R.violation('%s / E6 / %s' % (n, bad.split(' ')[0] + ' ' + bad.split(' ')[-1][:60]), 'E6',
                            'operation result may depend on hidden state: ' + bad, e['loc'])
        R.obligation(fn_ok, 'E6 ' + n)

def rule_E5_events(R, results):
    """no fresh node allocation inside a BDDEnv operation (engine S events): results come from the table"""
    ok_fns = {B + 'mk_choice', B + 'new'}
    for full, res in results.items():
        if full in ok_fns: continue
        bad = set()
        for (I, params, r, obls) in res:
            for ev in I.events:
                if ev[0] in ('rc_new', 'raw_choice'): bad.add((ev[0], ev[-1]))
        R.count('E5:functions')
        R.obligation(not bad, 'E5 ' + full)
        for (k, loc) in sorted(bad):
            R.violation('%s / E5 / %s' % (full, k), 'E5', 'operation builds a node by %s instead of through mk_choice: returned Rc is not a table node' % k, loc)

# ------------------------------------------------------------------------------------------------
# H: key agreement for NamedSymbol

NS = 'rsbdd::<symbols::NamedSymbol as '

def fields_read(t):
    out = []
    for e in walk(t['body']):
        if e['k'] == 'Field' and canon(e.get('adt', '')) == 'rsbdd::symbols::NamedSymbol':
            base = strip(e['lhs'])
            who = base.get('var', '?').split('#')[0] if isinstance(base, dict) else '?'
            out.append((who, e['field_name']))
    return out

def rule_H(F, R):
    lib = F.lib()
    # BDD::get_hash hashes the diagram structurally (the derived Hash of `self`), so that equal diagrams hash equal wherever they live
    gh = lib.ithir.get('rsbdd::bdd::BDD::get_hash')
    if gh is not None:
        hs_calls = [e for e in walk(gh['body']) if e['k'] == 'Call' and callee_decl(e) == 'std::hash::Hash::hash']
        one = [e for e in walk(gh['body']) if e['k'] == 'Call' and callee_decl(e) == 'std::hash::BuildHasher::hash_one']
        if not hs_calls and len(one) == 1:
            # BuildHasher::hash_one(&builder, self): the same structural hash in one call
            hs_calls = [{'args': [one[0]['args'][1]], 'callee': {'res': 'BDD'}, 'k': 'Call'}]
        okh = len(hs_calls) == 1
        if okh:
            a0 = hs_calls[0]['args'][0]
            casts = [x for x in walk(a0) if x['k'] in ('Cast', 'PointerCoercion') or (x['k'] == 'Call' and (callee_name(x) or '').split('::')[-1] in ('as_ptr', 'addr_of', 'into_raw', 'from_ref'))]
            b0 = strip(a0)
            okh = not casts and b0['k'] in ('VarRef', 'UpvarRef') and 'BDD' in (hs_calls[0].get('callee', {}).get('res') or callee_name(hs_calls[0]) or '')
        R.count('H:get_hash'); R.obligation(okh, 'H get_hash')
        if not okh: R.violation('rsbdd::bdd::BDD::get_hash / H / structural hash', 'H', 'get_hash must feed the diagram itself (its derived, structural Hash) to the hasher - not an address or a part of it: equal diagrams must hash equal')
    def body(tr, m):
        return lib.ithir.get(NS + tr + '>::' + m)
    eq = body('std::cmp::PartialEq', 'eq'); cmp = body('std::cmp::Ord', 'cmp'); hs = body('std::hash::Hash', 'hash'); pc = body('std::cmp::PartialOrd', 'partial_cmp')
    for nm, t in (('eq', eq), ('cmp', cmp), ('hash', hs), ('partial_cmp', pc)):
        R.count('H:impl-bodies')
        if t is None:
            R.obligation(False, 'H missing ' + nm)
            R.violation('rsbdd::symbols::NamedSymbol / H / %s missing' % nm, 'H', 'manual %s impl of NamedSymbol not found (anchor missing: derived impls would compare names too)' % nm)
    if not all((eq, cmp, hs, pc)): return
    feq, fcmp, fhs = fields_read(eq), fields_read(cmp), fields_read(hs)
    keyset = lambda fs: sorted(set(f for _, f in fs))
    ok = keyset(feq) == keyset(fcmp) == keyset(fhs) == ['id']
    R.obligation(ok, 'H keyset')
    R.sample({'rule': 'H', 'eq reads': feq, 'cmp reads': fcmp, 'hash reads': fhs})
    if not ok:
        R.violation('rsbdd::symbols::NamedSymbol / H / key fields', 'H', 'eq / cmp / hash of NamedSymbol do not read the same key {id}: eq=%s cmp=%s hash=%s' % (keyset(feq), keyset(fcmp), keyset(fhs)))
    # eq: `self.id == other.id`
    b = eq['body']
    e = b['expr'] if b['k'] == 'Block' and not b['stmts'] else b
    e = strip(e)
    ok = e['k'] == 'Binary' and e['op'] == 'Eq' and sorted(x for x, _ in feq) == ['other', 'self']
    R.obligation(ok, 'H eq')
    if not ok: R.violation('rsbdd::symbols::NamedSymbol / H / eq shape', 'H', 'PartialEq::eq is not `self.id == other.id`', eq['span']['loc'])
    # cmp: usize::cmp(&self.id, &other.id), receiver first
    calls = [x for x in walk(cmp['body']) if x['k'] == 'Call']
    ok = len(calls) == 1 and (callee_name(calls[0]) or '').endswith('impl std::cmp::Ord for usize>::cmp')
    if ok:
        a0 = strip(calls[0]['args'][0]); a1 = strip(calls[0]['args'][1])
        who = lambda x: strip(x['lhs']).get('var', '?').split('#')[0] if x.get('k') == 'Field' else '?'
        ok = who(a0) == 'self' and who(a1) == 'other'
    R.obligation(ok, 'H cmp')
    if not ok: R.violation('rsbdd::symbols::NamedSymbol / H / cmp shape', 'H', 'Ord::cmp is not `self.id.cmp(&other.id)` (reversed or different key breaks the variable order)', cmp['span']['loc'])
    # partial_cmp delegates to cmp
    calls = [x for x in walk(pc['body']) if x['k'] == 'Call']
    ok = len(calls) == 1 and callee_name(calls[0]) == NS + 'std::cmp::Ord>::cmp'
    if ok:
        a0 = strip(calls[0]['args'][0]); a1 = strip(calls[0]['args'][1])
        ok = a0.get('var', '').startswith('self#') and a1.get('var', '').startswith('other#')
    adts = [x for x in walk(pc['body']) if x['k'] == 'Adt']
    ok = ok and len(adts) == 1 and adts[0]['variant'] == 'Some'
    R.obligation(ok, 'H partial_cmp')
    if not ok: R.violation('rsbdd::symbols::NamedSymbol / H / partial_cmp', 'H', 'PartialOrd::partial_cmp is not Some(self.cmp(other))', pc['span']['loc'])
    # BDD: derived structural Eq / Hash
    for tr in ('std::cmp::PartialEq', 'std::cmp::Eq', 'std::hash::Hash'):
        imps = [i for i in lib.impls if i.get('trait') == tr and canon(i['self'].get('def', '')) == BDD]
        ok = len(imps) == 1 and imps[0]['derived']
        R.count('H:BDD-derived-impls')
        R.obligation(ok, 'H derived ' + tr)
        if not ok: R.violation('rsbdd::bdd::BDD / H / %s' % tr.split('::')[-1], 'H', '%s for BDD is not the derived structural implementation' % tr)

def rule_E9(F, R):
    """C13: `duplicates(root)` can tell a diagram with two copies of a node from a shared one: the count by address is taken over the
    diagram's own nodes (node_list(root)), never over their representatives in the table (mapped through `find`, every copy has the
    representative's address and the count is 0 whatever the diagram looks like)"""
    lib = F.lib()
    fn = 'rsbdd::bdd::BDDEnv::duplicates'
    t = lib.ithir.get(fn)
    if t is None:
        R.violation(fn + ' / E9 / anchor', 'UNDECIDABLE', 'duplicates not found'); return
    lets = {}
    for b in walk(t['body']):
        if b['k'] == 'Block':
            for st in b['stmts']:
                if st['k'] == 'Let' and st.get('init') is not None:
                    q = st['pat']
                    while q['k'] in ('AscribeUserType', 'Deref', 'DerefPattern'): q = q.get('sub') or q.get('subpattern')
                    if q['k'] == 'Binding': lets[q['var']] = st['init']
    def through_find(e, depth=0):
        for x in walk(e):
            if x['k'] == 'Call' and callee_name(x) in ('rsbdd::bdd::BDDEnv::find', 'rsbdd::bdd::BDDEnv::mk_choice'): return True
            if x['k'] == 'Closure':
                ct = lib.ithir.get(canon(x['def']))
                if ct is not None and depth < 3 and through_find(ct['body'], depth + 1): return True
            if x['k'] in ('VarRef', 'UpvarRef') and x['var'] in lets and depth < 3 and through_find(lets[x['var']], depth + 1): return True
        return False
    by_addr = []
    for e in walk(t['body']):
        if e['k'] == 'Call' and (callee_name(e) or '').split('::')[-1] in ('unique_by', 'unique', 'dedup_by_key', 'collect') and len(e['args']) >= 1:
            cl = [x for x in walk(e['args'][-1]) if x['k'] == 'Closure'] if len(e['args']) == 2 else []
            ct = lib.ithir.get(canon(cl[0]['def'])) if cl else None
            if ct is not None and any(x['k'] == 'Call' and (callee_name(x) or '') in ('std::rc::Rc::into_raw', 'std::rc::Rc::as_ptr') for x in walk(ct['body'])): by_addr.append(e)
    srcs = [e['args'][0] for e in by_addr]
    if not by_addr:
        # the same count written as a loop: `for node in NODES { pointers.insert(Rc::into_raw(..node..)) }`
        for m in walk(t['body']):
            if m['k'] == 'Match' and m.get('source') == 'ForLoopDesugar':
                if any(x['k'] == 'Call' and (callee_name(x) or '') in ('std::rc::Rc::into_raw', 'std::rc::Rc::as_ptr') for x in walk(m['arms'][0]['body'])) and \
                        any(x['k'] == 'Call' and (callee_name(x) or '').endswith('Set::insert') for x in walk(m['arms'][0]['body'])):
                    by_addr.append(m); srcs.append(m['scrutinee'])
    ok = len(by_addr) == 1 and not through_find(srcs[0])
    R.count('E9:address-counts', len(by_addr)); R.obligation(ok, 'E9 duplicates')
    if not ok:
        R.violation(fn + ' / E9 / count by address', 'E9', 'the count of distinct addresses must run over the nodes of the diagram itself (node_list(root)); %s' % (
            'it runs over nodes mapped through the table, which all have the representative\'s address' if by_addr else 'no count by address found'), t['span']['loc'] if 'span' in t else None)

def rule_E10(F, R):
    """C13 / C19: a set works in one environment - the one it was given or created with.  Only the constructor `BDDSet::new` creates an
    environment; no method of a set does (a probe built in a scratch environment and then combined with the set's own diagram stores
    nodes whose children live in another table: sharing is gone for everything built on top of them)"""
    lib = F.lib()
    S = 'rsbdd::set::BDDSet::'
    n = 0
    for name, t in sorted(lib.ithir.items()):
        if not name.startswith('rsbdd::set::') or '@inl' in name: continue
        base = name.split('::{closure')[0]
        if base == S + 'new': continue
        n += 1
        bad = [e for e in walk(t['body']) if e['k'] == 'Call' and (callee_name(e) or '') in (S + 'new', 'rsbdd::bdd::BDDEnv::new', '<rsbdd::bdd::BDDEnv<S> as std::default::Default>::default')]
        bad += [e for e in walk(t['body']) if e['k'] == 'Call' and callee_decl(e) == 'std::default::Default::default' and 'BDDEnv' in str((e.get('ty') or {}).get('s'))]
        R.count('E10:set-functions'); R.obligation(not bad, 'E10 ' + name)
        for e in bad:
            R.violation('%s / E10 / second environment' % base, 'E10', '%s creates an environment of its own (%s): diagrams built there do not share nodes with the set\'s environment' % (base.split('::')[-1], (callee_name(e) or '').split('::')[-1]), e.get('loc'))
    if n == 0: R.violation('rsbdd::set / E10 / VACUITY', 'VACUITY', 'no function of the set module found')

def rule_E8(F, R):
    """C13: a formula built with `new_with_env` works in the environment it was given - the `env` field of every ParsedFormula it
    constructs is the parameter itself (an `Rc` handle to it), never a copy of the environment (a copy has its own node table)"""
    import flow
    lib = F.lib()
    fn = 'rsbdd::parser::ParsedFormula::new_with_env'
    t = lib.ithir.get(fn)
    if t is None:
        R.violation(fn + ' / E8 / anchor', 'UNDECIDABLE', 'new_with_env not found'); return
    fl = flow.Flow(lib)
    pvar = None
    for p in t['params']:
        if 'pat' in p and p['pat'].get('k') == 'Binding' and 'BDDEnv' in p['ty'].get('s', ''): pvar = p['pat']['var']
    found = []
    flow.scan(fl, t['body'], {}, lambda x: x.get('k') == 'Adt' and canon(x.get('adt', '')) == 'rsbdd::parser::ParsedFormula', found)
    n = 0
    for node, env in found:
        for f in node['fields']:
            if f.get('name') != 'env': continue
            n += 1
            v = fl.ev(f['expr'], env)
            ok = pvar is not None and v == ('param', pvar)
            R.count('E8:env-field-initialisers'); R.obligation(ok, 'E8 env')
            if not ok: R.violation(fn + ' / E8 / environment', 'E8', 'the formula must keep the caller\'s environment (an Rc handle to the parameter); found %s - a copied environment has its own node table, so nodes are no longer shared with the caller\'s' % flow.show(v), f['expr'].get('loc'))
    if n == 0:
        R.violation(fn + ' / E8 / VACUITY', 'VACUITY', 'no ParsedFormula constructor with an env field found in new_with_env')
    # ... and `new` gives every formula an environment of its own: a fresh Rc::new(BDDEnv::new()), not one kept anywhere else (the ids a
    # formula hands out start from 0, so two formulas in one table would take each other's nodes for their own variables)
    fn2 = 'rsbdd::parser::ParsedFormula::new'
    t2 = lib.ithir.get(fn2)
    if t2 is None:
        R.violation(fn2 + ' / E8 / anchor', 'UNDECIDABLE', 'ParsedFormula::new not found'); return
    fl2 = flow.Flow(lib, max_depth=0)          # calls are kept as calls: the question is which constructor is called, not what it builds
    found2 = []
    flow.scan(fl2, t2['body'], {}, lambda x: x.get('k') == 'Call' and callee_name(x) == fn, found2)
    ok = len(found2) == 1
    got = None
    if ok:
        got = fl2.ev(found2[0][0]['args'][0], found2[0][1])
        ok = got == ('call', 'std::rc::Rc::new', (('call', 'rsbdd::bdd::BDDEnv::new', ()),)) or got == ('call', 'std::rc::Rc::new', (('call', '<rsbdd::bdd::BDDEnv as std::default::Default>::default', ()),))
    R.count('E8:fresh-environment'); R.obligation(ok, 'E8 fresh env')
    if not ok: R.violation(fn2 + ' / E8 / fresh environment', 'E8', 'ParsedFormula::new must build the formula in a new environment of its own (Rc::new(BDDEnv::new())); found %s' % (flow.show(got) if got is not None else '%d call(s) of new_with_env' % len(found2)), t2['span']['loc'] if 'span' in t2 else None)

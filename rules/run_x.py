import sys, traceback
sys.path.insert(0,'/verif/rules')
from facts import *
from framework import Report
import engine_x
F=Facts(sys.argv[1])
R=Report('X')
for f in (engine_x.rule_X1_printers, engine_x.rule_X1_dot, engine_x.rule_X2, engine_x.rule_X3, engine_x.rule_X4, engine_x.rule_X5, engine_x.rule_X6):
    try: f(F,R)
    except Exception: traceback.print_exc()
print(R.counts)
print('obligations', R.obligations, 'discharged', R.discharged)
for v in R.violations: print('  VIOL', v.key,'|', v.msg[:300], v.loc)
